import CpModel.HeaderEnc
import CpModel.Escape
/-!
  C12 — client-controlled data cannot break out of headers, error pages or logs.

  Theorems about `CpModel.HeaderEnc` / `CpModel.Escape`.  Every statement quantifies over ALL
  texts (lists of Unicode scalar values) / ALL byte strings; nothing is bounded.
-/
namespace CpProofs.C12
open CpModel.HeaderEnc CpModel.Escape CpModel.Gen.C12

/-- a byte the statement allows on the wire in a status line / header name / header value -/
def Clean (b : UInt8) : Prop := 32 ≤ b.toNat ∧ b.toNat ≠ 127

instance (b : UInt8) : Decidable (Clean b) := by unfold Clean; infer_instance

/-- decidable equality on `Except` (for the concrete witnesses below) -/
instance instDecEqExcept {ε α : Type} [DecidableEq ε] [DecidableEq α] : DecidableEq (Except ε α)
  | .ok a, .ok b =>
    if h : a = b then isTrue (by rw [h]) else isFalse (by intro h'; cases h'; exact h rfl)
  | .error a, .error b =>
    if h : a = b then isTrue (by rw [h]) else isFalse (by intro h'; cases h'; exact h rfl)
  | .ok _, .error _ => isFalse (by intro h; cases h)
  | .error _, .ok _ => isFalse (by intro h; cases h)

theorem u8_toNat_ofNat {n : Nat} (h : n < 256) : (UInt8.ofNat n).toNat = n :=
  UInt8.toNat_ofNat_of_lt' (by simpa [UInt8.size] using h)

/-! ### the delete table (regenerated from the live module) -/

/-- every control octet (0..31, 127) is in the table `encode_header_item` deletes -/
theorem deleteTable_covers_controls :
    ∀ n, n < 256 → (n < 32 ∨ n = 127) → deleteBytes.contains (UInt8.ofNat n) = true := by
  decide +kernel

/-- the switches the model relies on, as found in the live module: bytes that are not deleted are
    left unchanged by the translate step; Latin-1 is the only codec tried first; the class-level
    protocol is (1, 1) and RFC 2047 is on (so `encode` never raises) -/
theorem tables_as_modelled :
    translateIdentityElsewhere = true ∧ encodingsLatin1Only = true ∧ classProtocol11 = true ∧
    useRfc2047 = true := by decide

/-- `encode` never raises `ValueError` (consequence of the switches above) -/
theorem encode_total (s : Text) : ∃ v, encode s = .ok v := by
  unfold encode
  split
  · exact ⟨_, rfl⟩
  · split
    · exact ⟨_, rfl⟩
    · rename_i h; exact absurd (by decide) h

theorem deleteCtl_clean (bs : Bytes) : ∀ b ∈ deleteCtl bs, Clean b := by
  intro b hb
  simp only [deleteCtl, List.mem_filter] at hb
  have hnot : deleteBytes.contains b = false := by simpa using hb.2
  have hlt : b.toNat < 256 := UInt8.toNat_lt b
  have hb' : UInt8.ofNat b.toNat = b := UInt8.ofNat_toNat
  unfold Clean
  refine ⟨?_, ?_⟩
  · by_cases h : b.toNat < 32
    · have := deleteTable_covers_controls b.toNat hlt (Or.inl h)
      rw [hb'] at this; rw [this] at hnot; exact absurd hnot (by simp)
    · omega
  · intro h
    have := deleteTable_covers_controls b.toNat hlt (Or.inr h)
    rw [hb'] at this; rw [this] at hnot; exact absurd hnot (by simp)

/-- **C12_headermap_clean**: for every text, every byte of `encode_header_item(text)` is ≥ 32 and
    ≠ 127 (whatever branch `encode` took). -/
theorem C12_headermap_clean (s : Text) (out : Bytes) (h : encodeHeaderItem s = .ok out) :
    ∀ b ∈ out, Clean b := by
  unfold encodeHeaderItem at h
  cases he : encode s with
  | error e => rw [he] at h; cases h
  | ok v =>
    rw [he] at h
    have : out = deleteCtl v := by cases h; rfl
    subst this
    exact deleteCtl_clean v

/-- the same for `bytes` items -/
theorem C12_headermap_bytes_clean (bs : Bytes) : ∀ b ∈ encodeHeaderItemBytes bs, Clean b :=
  deleteCtl_clean bs

/-- one `(name, value)` of `HeaderMap.output()` is clean on both sides -/
theorem outputItem_clean (k v : Text) (o : Bytes × Bytes) (h : outputItem k v = .ok o) :
    (∀ b ∈ o.1, Clean b) ∧ (∀ b ∈ o.2, Clean b) := by
  unfold outputItem at h
  cases hk : encodeHeaderItem k with
  | error e => rw [hk] at h; cases h
  | ok k' =>
    cases hv : encodeHeaderItem v with
    | error e => rw [hk, hv] at h; cases h
    | ok v' =>
      rw [hk, hv] at h
      have : o = (k', v') := by cases h; rfl
      subst this
      exact ⟨C12_headermap_clean k k' hk, C12_headermap_clean v v' hv⟩

theorem mapM_ok_forall {α β : Type} (f : α → Except Err β) (P : β → Prop)
    (hf : ∀ a b, f a = .ok b → P b) :
    ∀ (l : List α) (out : List β), l.mapM f = .ok out → (∀ b ∈ out, P b) ∧ out.length = l.length := by
  intro l
  induction l with
  | nil => intro out h; simp [List.mapM_nil, pure, Except.pure] at h; subst h; simp
  | cons a rest ih =>
    intro out h
    rw [List.mapM_cons] at h
    cases ha : f a with
    | error e => rw [ha] at h; cases h
    | ok b =>
      cases hr : rest.mapM f with
      | error e => rw [ha, hr] at h; cases h
      | ok bs =>
        rw [ha, hr] at h
        have : out = b :: bs := by cases h; rfl
        subst this
        have := ih bs hr
        refine ⟨?_, by simp [this.2]⟩
        intro x hx
        cases hx with
        | head => exact hf a _ ha
        | tail _ hx => exact this.1 x hx

/-- **C12_output_clean**: every header tuple `HeaderMap.output()` emits is clean, and exactly one
    tuple is emitted per stored item. -/
theorem C12_output_clean (items : List (Text × Text)) (out : List (Bytes × Bytes))
    (h : output items = .ok out) :
    (∀ o ∈ out, (∀ b ∈ o.1, Clean b) ∧ (∀ b ∈ o.2, Clean b)) ∧ out.length = items.length :=
  mapM_ok_forall (fun kv : Text × Text => outputItem kv.1 kv.2)
    (fun o => (∀ b ∈ o.1, Clean b) ∧ (∀ b ∈ o.2, Clean b))
    (fun kv o ho => outputItem_clean kv.1 kv.2 o ho) items out (by unfold output at h; exact h)

/-! ### base64 and the RFC 2047 round trip -/

theorem b64val_b64chr : ∀ n, n < 64 → b64val? (b64chr n) = some n := by decide +kernel
theorem b64chr_ne_pad : ∀ n, n < 64 → b64chr n ≠ 61 := by decide +kernel
/-- the base64 alphabet has no control characters (and is ASCII) -/
theorem b64chr_printable : ∀ n, n < 64 → 32 < b64chr n ∧ b64chr n < 127 := by decide +kernel

/-- own base64: decoding what the encoder produced gives the bytes back (3-byte-group induction) -/
theorem b64decN_b64encN (l : List Nat) (h : ∀ x ∈ l, x < 256) : b64decN (b64encN l) = some l := by
  fun_induction b64encN l with
  | case1 => simp [b64decN]
  | case2 a =>
    have ha : a < 256 := h a (by simp)
    simp only [b64decN]
    rw [b64val_b64chr _ (by omega), b64val_b64chr _ (by omega)]
    simp
    omega
  | case3 a b =>
    have ha : a < 256 := h a (by simp)
    have hb : b < 256 := h b (by simp)
    simp only [b64decN]
    have := b64chr_ne_pad ((b % 16) * 4) (by omega)
    rw [b64val_b64chr _ (by omega), b64val_b64chr _ (by omega), b64val_b64chr _ (by omega)]
    simp [this]
    omega
  | case4 a b c rest ih =>
    have ha : a < 256 := h a (by simp)
    have hb : b < 256 := h b (by simp)
    have hc : c < 256 := h c (by simp)
    have hr := ih (fun x hx => h x (by simp [hx]))
    simp only [b64decN]
    have := b64chr_ne_pad (c % 64) (by omega)
    rw [b64val_b64chr _ (by omega), b64val_b64chr _ (by omega), b64val_b64chr _ (by omega),
      b64val_b64chr _ (by omega), hr]
    simp [this]
    omega

/-- every character the encoder emits is printable ASCII (alphabet or `=`) -/
theorem b64encN_printable (l : List Nat) (h : ∀ x ∈ l, x < 256) :
    ∀ y ∈ b64encN l, 32 < y ∧ y < 127 := by
  fun_induction b64encN l with
  | case1 => simp
  | case2 a =>
    have ha : a < 256 := h a (by simp)
    intro y hy
    simp only [List.mem_cons, List.not_mem_nil, or_false] at hy
    rcases hy with rfl | rfl | rfl | rfl
    · exact b64chr_printable _ (by omega)
    · exact b64chr_printable _ (by omega)
    · omega
    · omega
  | case3 a b =>
    have ha : a < 256 := h a (by simp)
    have hb : b < 256 := h b (by simp)
    intro y hy
    simp only [List.mem_cons, List.not_mem_nil, or_false] at hy
    rcases hy with rfl | rfl | rfl | rfl
    · exact b64chr_printable _ (by omega)
    · exact b64chr_printable _ (by omega)
    · exact b64chr_printable _ (by omega)
    · omega
  | case4 a b c rest ih =>
    have ha : a < 256 := h a (by simp)
    have hb : b < 256 := h b (by simp)
    have hc : c < 256 := h c (by simp)
    have hr := ih (fun x hx => h x (by simp [hx]))
    intro y hy
    simp only [List.mem_cons] at hy
    rcases hy with rfl | rfl | rfl | rfl | hy
    · exact b64chr_printable _ (by omega)
    · exact b64chr_printable _ (by omega)
    · exact b64chr_printable _ (by omega)
    · exact b64chr_printable _ (by omega)
    · exact hr y hy

theorem map_toNat_lt (bs : Bytes) : ∀ x ∈ bs.map UInt8.toNat, x < 256 := by
  intro x hx
  simp only [List.mem_map] at hx
  obtain ⟨b, _, rfl⟩ := hx
  exact UInt8.toNat_lt b

theorem map_toNat_ofNat (l : List Nat) (h : ∀ x ∈ l, x < 256) :
    (l.map UInt8.ofNat).map UInt8.toNat = l := by
  induction l with
  | nil => rfl
  | cons a rest ih =>
    simp only [List.map_cons]
    rw [ih (fun x hx => h x (by simp [hx])), u8_toNat_ofNat (h a (by simp))]

theorem map_ofNat_toNat (bs : Bytes) : (bs.map UInt8.toNat).map UInt8.ofNat = bs := by
  induction bs with
  | nil => rfl
  | cons a rest ih => simp only [List.map_cons, ih, UInt8.ofNat_toNat]

/-- the byte-level decoder inverts the byte-level encoder, for every byte string -/
theorem b64dec_b64enc (bs : Bytes) : b64dec (b64enc bs) = some bs := by
  unfold b64dec b64enc
  have hlt := map_toNat_lt bs
  have hp : ∀ y ∈ b64encN (bs.map UInt8.toNat), y < 256 := fun y hy => by
    have := b64encN_printable _ hlt y hy; omega
  rw [map_toNat_ofNat _ hp, b64decN_b64encN _ hlt]
  simp only [Option.map_some]
  rw [map_ofNat_toNat]

/-- every byte of the base64 text is printable ASCII: the delete step cannot touch it -/
theorem b64enc_clean (bs : Bytes) : ∀ b ∈ b64enc bs, Clean b := by
  intro b hb
  unfold b64enc at hb
  simp only [List.mem_map] at hb
  obtain ⟨y, hy, rfl⟩ := hb
  have := b64encN_printable _ (map_toNat_lt bs) y hy
  unfold Clean
  rw [u8_toNat_ofNat (by omega)]
  omega

theorem deleteCtl_id_of_clean (bs : Bytes) (h : ∀ b ∈ bs, Clean b) : deleteCtl bs = bs := by
  unfold deleteCtl
  rw [List.filter_eq_self]
  intro b hb
  have hc := h b hb
  -- a clean byte is not in the table: the table only holds what `translate` deletes; decide it
  have key : ∀ n, n < 256 → 32 ≤ n → n ≠ 127 → deleteBytes.contains (UInt8.ofNat n) = false := by
    decide +kernel
  have := key b.toNat (UInt8.toNat_lt b) hc.1 hc.2
  rw [UInt8.ofNat_toNat] at this
  rw [this]; rfl

/-- **C12_rfc2047_roundtrip**: text with a code point above 255 is emitted by
    `encode_header_item` as exactly one encoded word `=?utf-8?b?` payload `?=` (the delete step
    leaves it intact), whose payload base64-decodes to bytes that UTF-8-decode (core Lean's
    verified decoder) to the original text.  Holds for every protocol version (table:
    `classProtocol11`, `useRfc2047`). -/
theorem C12_rfc2047_roundtrip (s : Text) (h : isLatin1 s = false) :
    ∃ payload : Bytes,
      encodeHeaderItem s = .ok (ewPrefix ++ payload ++ ewSuffix) ∧
      (∀ b ∈ ewPrefix ++ payload ++ ewSuffix, Clean b) ∧
      (b64dec payload).bind (fun raw => raw.toByteArray.utf8Decode?) = some s.toArray := by
  refine ⟨b64enc (utf8 s), ?_, ?_, ?_⟩
  · have hclean : ∀ b ∈ ewPrefix ++ b64enc (utf8 s) ++ ewSuffix, Clean b := by
      intro b hb
      simp only [List.mem_append] at hb
      rcases hb with (hb | hb) | hb
      · revert b; decide
      · exact b64enc_clean _ b hb
      · revert b; decide
    have henc : encode s = .ok (ewPrefix ++ b64enc (utf8 s) ++ ewSuffix) := by
      unfold encode
      simp [h, classProtocol11, useRfc2047]
    unfold encodeHeaderItem
    rw [henc]
    simp only [Except.map]
    rw [deleteCtl_id_of_clean _ hclean]
  · intro b hb
    simp only [List.mem_append] at hb
    rcases hb with (hb | hb) | hb
    · revert b; decide
    · exact b64enc_clean _ b hb
    · revert b; decide
  · rw [b64dec_b64enc]
    simp only [Option.bind_some, utf8]
    exact List.utf8Decode?_utf8Encode

/-- non-vacuity: U+8200 is not Latin-1, and the encoded word is the one the docstring of
    `HeaderMap.encode` quotes (`=?utf-8?b?6IiA?=`) -/
example : isLatin1 [Char.ofNat 0x8200] = false ∧
    encodeHeaderItem [Char.ofNat 0x8200] =
      .ok [61, 63, 117, 116, 102, 45, 56, 63, 98, 63, 54, 73, 105, 65, 63, 61] := by
  decide

/-! ### status line and cookie lines (`Response.finalize`) -/

theorem digits3_clean (n : Nat) (h : n ≤ 999) : ∀ b ∈ digits3 n, Clean b := by
  intro b hb
  simp only [digits3, List.mem_cons, List.not_mem_nil, or_false] at hb
  unfold Clean
  rcases hb with rfl | rfl | rfl <;> rw [u8_toNat_ofNat (by omega)] <;> omega

theorem statusLine_clean (code : Nat) (reason : Text) (out : Bytes)
    (h : statusLine code reason = .ok out) : ∀ b ∈ out, Clean b := by
  unfold statusLine at h
  split at h
  · rename_i hc
    cases hr : encodeHeaderItem reason with
    | error e => rw [hr] at h; cases h
    | ok r =>
      rw [hr] at h
      have : out = digits3 code ++ [32] ++ r := by cases h; rfl
      subst this
      intro b hb
      simp only [List.mem_append, List.mem_singleton] at hb
      rcases hb with (hb | rfl) | hb
      · exact digits3_clean code (by omega) b hb
      · decide
      · exact C12_headermap_clean reason r hr b hb
  · cases h

theorem cookieLine_clean (m : Text) (o : Bytes × Bytes) (h : cookieLine m = .ok o) :
    (∀ b ∈ o.1, Clean b) ∧ (∀ b ∈ o.2, Clean b) := by
  unfold cookieLine at h
  split at h
  · cases h
  · exact outputItem_clean _ _ o h

/-- **C12_status_cookie_clean** (repaired `Response.finalize`): for every status code, every
    reason phrase and every list of morsel output strings — whatever `http.cookies` produced —
    the status line and every cookie tuple consist of clean bytes only. -/
theorem C12_status_cookie_clean (code : Nat) (reason : Text) (morsels : List Text) :
    (∀ out, statusLine code reason = .ok out → ∀ b ∈ out, Clean b) ∧
    (∀ ls, cookieLines morsels = .ok ls →
      ∀ o ∈ ls, (∀ b ∈ o.1, Clean b) ∧ (∀ b ∈ o.2, Clean b)) :=
  ⟨fun out h => statusLine_clean code reason out h,
   fun ls h => (mapM_ok_forall cookieLine _ cookieLine_clean morsels ls h).1⟩

/-- **C12_cookie_no_injection** (repaired): exactly one header tuple per morsel — no text inside a
    morsel can start a header line of its own. -/
theorem C12_cookie_no_injection (morsels : List Text) (ls : List (Bytes × Bytes))
    (h : cookieLines morsels = .ok ls) : ls.length = morsels.length :=
  (mapM_ok_forall cookieLine (fun _ => True) (fun _ _ _ => trivial) morsels ls h).2

/-- **C12_response_clean**: whatever the status code, reason phrase, header-map items and cookie
    morsels are, what the repaired `Response.finalize` hands to the server is a clean status line
    and clean header tuples, exactly one per header-map item and per morsel. -/
theorem C12_response_clean (r : Resp) (st : Bytes) (hs : List (Bytes × Bytes))
    (h : finalizeEmit r = .ok (st, hs)) :
    (∀ b ∈ st, Clean b) ∧ (∀ o ∈ hs, (∀ b ∈ o.1, Clean b) ∧ (∀ b ∈ o.2, Clean b)) ∧
    hs.length = r.items.length + r.morsels.length := by
  unfold finalizeEmit at h
  cases h1 : statusLine r.code r.reason with
  | error e => rw [h1] at h; cases h
  | ok st' =>
    cases h2 : output r.items with
    | error e => rw [h1, h2] at h; cases h
    | ok hs' =>
      cases h3 : cookieLines r.morsels with
      | error e => rw [h1, h2, h3] at h; cases h
      | ok cs' =>
        rw [h1, h2, h3] at h
        have e1 : st = st' := by cases h; rfl
        have e2 : hs = hs' ++ cs' := by cases h; rfl
        subst e1 e2
        have ho := C12_output_clean r.items hs' h2
        have hc := (C12_status_cookie_clean r.code r.reason r.morsels).2 cs' h3
        have hn := C12_cookie_no_injection r.morsels cs' h3
        refine ⟨statusLine_clean _ _ _ h1, ?_, by simp [ho.2, hn]⟩
        intro o hmem
        simp only [List.mem_append] at hmem
        rcases hmem with hmem | hmem
        · exact ho.1 o hmem
        · exact hc o hmem

/-- non-vacuity: the F12 witness goes through the repaired assembly as ONE clean tuple -/
example : cookieLines ["Set-Cookie: k=v; Path=/x\r\nX-Evil: 1".toList] =
    .ok [("Set-Cookie".toList.map fun c => UInt8.ofNat c.toNat,
          "k=v; Path=/xX-Evil: 1".toList.map fun c => UInt8.ofNat c.toNat)] := by
  decide +kernel

example : statusLine 200 "OK\r\nX-Evil: 1".toList =
    .ok ("200 OKX-Evil: 1".toList.map fun c => UInt8.ofNat c.toNat) := by
  decide +kernel

/-- the full statement for the assembly as it was BEFORE the fix -/
def C12_status_cookie_clean_old : Prop :=
  ∀ (code : Nat) (reason : Text) (morsels : List Text),
    (∀ out, statusLineOld code reason = .ok out → ∀ b ∈ out, Clean b) ∧
    (∀ ls, cookieLinesOld morsels = .ok ls →
      (∀ o ∈ ls, (∀ b ∈ o.1, Clean b) ∧ (∀ b ∈ o.2, Clean b)) ∧ ls.length = morsels.length)

/-- **F12**: the pre-fix assembly violates the statement.  Witness: reason phrase `OK\nX` keeps
    its LF; and the single morsel `Set-Cookie: k=v; Path=/x\r\nX-Evil: 1` comes out as TWO
    tuples, the second being `("X-Evil", "1")`. -/
theorem C12_status_cookie_clean_old_false : ¬ C12_status_cookie_clean_old := by
  intro h
  have h1 := (h 200 ['O', 'K', '\n', 'X'] []).1 _ (by decide : statusLineOld 200 ['O', 'K', '\n', 'X'] = .ok [50, 48, 48, 32, 79, 75, 10, 88])
  exact absurd (h1 10 (by decide)) (by decide)

/-- the injected tuple, explicitly -/
theorem cookieLinesOld_injects :
    cookieLinesOld ["Set-Cookie: k=v; Path=/x\r\nX-Evil: 1".toList] =
      .ok [("Set-Cookie".toList.map fun c => UInt8.ofNat c.toNat,
            "k=v; Path=/x".toList.map fun c => UInt8.ofNat c.toNat),
           ("X-Evil".toList.map fun c => UInt8.ofNat c.toNat,
            "1".toList.map fun c => UInt8.ofNat c.toNat)] := by
  decide +kernel

/-- what DID hold before the fix: a reason phrase without control characters gives a clean
    status line (Latin-1 branch: bytes are the code points; RFC 2047 branch: base64) -/
theorem C12_status_old_partial (code : Nat) (reason : Text) (out : Bytes)
    (hr : ∀ c ∈ reason, 32 ≤ c.toNat ∧ c.toNat ≠ 127)
    (h : statusLineOld code reason = .ok out) : ∀ b ∈ out, Clean b := by
  unfold statusLineOld at h
  split at h
  · rename_i hc
    have henc : ∀ v, encode reason = .ok v → ∀ b ∈ v, Clean b := by
      intro v hv
      unfold encode at hv
      split at hv
      · rename_i hl
        have : v = latin1 reason := by cases hv; rfl
        subst this
        intro b hb
        simp only [latin1, List.mem_map] at hb
        obtain ⟨c, hcm, rfl⟩ := hb
        have hl' : c.toNat ≤ 255 := by
          simp only [Bool.and_eq_true, isLatin1, List.all_eq_true, decide_eq_true_eq] at hl
          exact hl.2 c hcm
        unfold Clean
        rw [u8_toNat_ofNat (by omega)]
        exact hr c hcm
      · split at hv
        · have : v = ewPrefix ++ b64enc (utf8 reason) ++ ewSuffix := by cases hv; rfl
          subst this
          intro b hb
          simp only [List.mem_append] at hb
          rcases hb with (hb | hb) | hb
          · revert b; decide
          · exact b64enc_clean _ b hb
          · revert b; decide
        · cases hv
    cases he : encode reason with
    | error e => rw [he] at h; cases h
    | ok r =>
      rw [he] at h
      have : out = digits3 code ++ [32] ++ r := by cases h; rfl
      subst this
      intro b hb
      simp only [List.mem_append, List.mem_singleton] at hb
      rcases hb with (hb | rfl) | hb
      · exact digits3_clean code (by omega) b hb
      · decide
      · exact henc r he b hb
  · cases h

/-- non-vacuity of the hypothesis -/
example : (∀ c ∈ "Not Found".toList, 32 ≤ c.toNat ∧ c.toNat ≠ 127) ∧
    statusLineOld 404 "Not Found".toList = .ok ("404 Not Found".toList.map fun c => UInt8.ofNat c.toNat) := by
  decide +kernel

/-! ### `SanitizedHost` -/

/-- the sanitised Host value holds neither CR nor LF (table: `hostDangerous`) -/
theorem C12_sanitizeHost_clean (s : Text) : ∀ c ∈ sanitizeHost s, c ≠ '\r' ∧ c ≠ '\n' := by
  intro c hc
  simp only [sanitizeHost, List.mem_filter] at hc
  have hnot : hostDangerous.contains c.toNat = false := by simpa using hc.2
  constructor
  · rintro rfl; revert hnot; decide
  · rintro rfl; revert hnot; decide

/-! ### HTML escaping, error page, redirect page -/

def Markup (c : Char) : Prop := c = '<' ∨ c = '>'

theorem htmlEscapeChar_no_markup (x c : Char) (h : c ∈ htmlEscapeChar x) : c ≠ '<' ∧ c ≠ '>' := by
  unfold htmlEscapeChar at h
  split at h
  · revert c; decide
  · split at h
    · revert c; decide
    · split at h
      · revert c; decide
      · simp only [List.mem_singleton] at h
        subst h
        exact ⟨by assumption, by assumption⟩

/-- `html.escape(s, quote=False)` never outputs `<` or `>` -/
theorem htmlEscape_no_markup (s : Text) : ∀ c ∈ htmlEscape s, c ≠ '<' ∧ c ≠ '>' := by
  intro c hc
  simp only [htmlEscape, List.mem_flatMap] at hc
  obtain ⟨x, _, hx⟩ := hc
  exact htmlEscapeChar_no_markup x c hx

theorem htmlUnescapeAux_cons_ne (c : Char) (t : Text) (h : c ≠ '&') :
    htmlUnescapeAux 0 (c :: t) = c :: htmlUnescapeAux 0 t := by
  simp [htmlUnescapeAux, h]

/-- reading the three entities back gives the original text: escaping loses nothing and adds
    nothing (every `&` in the escaped text starts one of the three entities) -/
theorem htmlUnescape_htmlEscape (s : Text) : htmlUnescape (htmlEscape s) = s := by
  unfold htmlUnescape
  induction s with
  | nil => rfl
  | cons c t ih =>
    have hcons : htmlEscape (c :: t) = htmlEscapeChar c ++ htmlEscape t := by
      simp [htmlEscape]
    rw [hcons]
    unfold htmlEscapeChar
    split
    · rename_i h; subst h
      simp [htmlUnescapeAux, ih]
    · split
      · rename_i h; subst h
        simp [htmlUnescapeAux, ih]
      · split
        · rename_i h; subst h
          simp [htmlUnescapeAux, ih]
        · rename_i h _ _
          simp only [List.singleton_append]
          rw [htmlUnescapeAux_cons_ne c _ h, ih]

/-- generic renderer fact: if every literal character satisfies `P` or is marked as literal…
    here: every character that is NOT from a literal comes out of `esc` -/
theorem renderMarked_field_chars (esc : Text → Text) (P : Char → Prop)
    (hesc : ∀ v, ∀ c ∈ esc v, P c) (kw : List (Text × Text)) :
    ∀ (tpl : List Piece) (out : List (Char × Bool)), renderMarked esc kw tpl = some out →
      ∀ p ∈ out, p.2 = false → P p.1 := by
  intro tpl
  induction tpl with
  | nil => intro out h; simp [renderMarked] at h; subst h; simp
  | cons pc rest ih =>
    intro out h
    cases pc with
    | lit s =>
      simp only [renderMarked, Option.map_eq_some_iff] at h
      obtain ⟨r, hr, rfl⟩ := h
      intro p hp hf
      simp only [List.mem_append, List.mem_map] at hp
      rcases hp with ⟨c, _, rfl⟩ | hp
      · cases hf
      · exact ih r hr p hp hf
    | field n =>
      simp only [renderMarked] at h
      cases hl : lookup kw n with
      | none => rw [hl] at h; cases h
      | some v =>
        cases hr : renderMarked esc kw rest with
        | none => rw [hl, hr] at h; cases h
        | some r =>
          rw [hl, hr] at h
          have : out = (esc v).map (·, false) ++ r := by cases h; rfl
          subst this
          intro p hp hf
          simp only [List.mem_append, List.mem_map] at hp
          rcases hp with ⟨c, hc, rfl⟩ | hp
          · exact hesc v c hc
          · exact ih r hr p hp hf

/-- **C12_error_page_escaped**: for EVERY `%`-template and EVERY keyword values, in the page
    `get_error_page` renders every `<` and every `>` comes from a template literal — no field
    value (status with a client-chosen reason phrase, message with the request path, traceback,
    version) can open or close a tag — and the rendered text is the marked text without marks. -/
theorem C12_error_page_escaped (kw : List (Text × Text)) (tpl : List Piece)
    (out : List (Char × Bool)) (h : renderMarked htmlEscape kw tpl = some out) :
    (∀ p ∈ out, (p.1 = '<' ∨ p.1 = '>') → p.2 = true) ∧
    render htmlEscape kw tpl = some (out.map Prod.fst) := by
  refine ⟨?_, by simp [render, h]⟩
  intro p hp hm
  cases hb : p.2 with
  | true => rfl
  | false =>
    have := renderMarked_field_chars htmlEscape (fun c => c ≠ '<' ∧ c ≠ '>')
      (fun v c hc => htmlEscape_no_markup v c hc) kw tpl out h p hp hb
    rcases hm with hm | hm
    · exact absurd hm this.1
    · exact absurd hm this.2

def fieldsOf : List Piece → List Text
  | [] => []
  | .lit _ :: rest => fieldsOf rest
  | .field n :: rest => n :: fieldsOf rest

theorem renderMarked_isSome (esc : Text → Text) (kw : List (Text × Text)) :
    ∀ tpl : List Piece, (∀ n ∈ fieldsOf tpl, (lookup kw n).isSome) →
      (renderMarked esc kw tpl).isSome := by
  intro tpl
  induction tpl with
  | nil => intro _; simp [renderMarked]
  | cons pc rest ih =>
    intro h
    cases pc with
    | lit s =>
      simp only [renderMarked, Option.isSome_map]
      exact ih (fun n hn => h n (by simpa [fieldsOf] using hn))
    | field n =>
      have h1 := h n (by simp [fieldsOf])
      have h2 := ih (fun m hm => h m (by simp [fieldsOf, hm]))
      simp only [renderMarked]
      cases hl : lookup kw n with
      | none => rw [hl] at h1; cases h1
      | some v =>
        cases hr : renderMarked esc kw rest with
        | none => rw [hr] at h2; cases h2
        | some r => simp

/-- the default template (generated table) only uses the four fields `get_error_page` always
    supplies: rendering the built-in page cannot fail with `KeyError` -/
theorem errorPage_isSome (status message traceback version : Text) :
    (errorPage status message traceback version).isSome := by
  unfold errorPage render
  rw [Option.isSome_map]
  apply renderMarked_isSome
  have : ∀ n ∈ fieldsOf (toPieces errorTemplate),
      n = kStatus ∨ n = kMessage ∨ n = kTraceback ∨ n = kVersion := by decide +kernel
  intro n hn
  rcases this n hn with rfl | rfl | rfl | rfl <;> simp [lookup, kStatus, kMessage, kTraceback, kVersion]

/-- **C12_error_page_failed_escaped** (repaired `except` branch of `get_error_page`, F2): in the
    message shown when the custom error page failed, every `<` and `>` belongs to the two literal
    `<br />` the code writes — neither the original message nor the exception text contributes
    markup — for every message and every exception text. -/
theorem C12_error_page_failed_escaped (message e : Text) :
    (∀ p ∈ failedMessageMarked message e, (p.1 = '<' ∨ p.1 = '>') → p.2 = true) ∧
    failedMessage message e = (failedMessageMarked message e).map Prod.fst := by
  refine ⟨?_, rfl⟩
  intro p hp hm
  have hesc : ∀ (v : Text) (c : Char), c ∈ htmlEscape v → (c = '<' ∨ c = '>') → False := by
    intro v c hc h
    have := htmlEscape_no_markup v c hc
    rcases h with h | h
    · exact this.1 h
    · exact this.2 h
  unfold failedMessageMarked at hp
  simp only [List.mem_append, List.mem_map] at hp
  rcases hp with ((hp | ⟨c, _, rfl⟩) | ⟨c, _, rfl⟩) | ⟨c, hc, rfl⟩
  · split at hp
    · cases hp
    · simp only [List.mem_append, List.mem_map] at hp
      rcases hp with ⟨c, hc, rfl⟩ | ⟨c, _, rfl⟩
      · exact absurd hm (fun h => hesc message c hc h)
      · rfl
  · rfl
  · rfl
  · exact absurd hm (fun h => hesc e c hc h)

theorem xmlAttrEscapeChar_no_markup (x c : Char) (h : c ∈ xmlAttrEscapeChar x) : c ≠ '<' ∧ c ≠ '>' := by
  unfold xmlAttrEscapeChar at h
  split at h
  · revert c; decide
  split at h
  · revert c; decide
  split at h
  · revert c; decide
  split at h
  · revert c; decide
  split at h
  · revert c; decide
  split at h
  · revert c; decide
  simp only [List.mem_singleton] at h
  subst h
  exact ⟨by assumption, by assumption⟩

/-- **quoteattr_delimited**: `saxutils.quoteattr(s)` is `q body q` with `q` a quote character that
    does not occur in `body`, and `body` holds neither `<` nor `>`: the attribute value cannot end
    early and cannot open a tag, for every `s`. -/
theorem quoteattr_delimited (s : Text) :
    ∃ (q : Char) (body : Text), quoteattr s = q :: body ++ [q] ∧ (q = '"' ∨ q = '\'') ∧
      ∀ c ∈ body, c ≠ q ∧ c ≠ '<' ∧ c ≠ '>' := by
  have hd : ∀ c ∈ s.flatMap xmlAttrEscapeChar, c ≠ '<' ∧ c ≠ '>' := by
    intro c hc
    simp only [List.mem_flatMap] at hc
    obtain ⟨x, _, hx⟩ := hc
    exact xmlAttrEscapeChar_no_markup x c hx
  unfold quoteattr
  simp only
  generalize s.flatMap xmlAttrEscapeChar = d at hd ⊢
  split
  · split
    · refine ⟨'"', _, rfl, Or.inl rfl, ?_⟩
      intro c hc
      simp only [List.mem_flatMap] at hc
      obtain ⟨x, hx, hcx⟩ := hc
      split at hcx
      · revert c; decide
      · rename_i hne
        simp only [List.mem_singleton] at hcx
        subst hcx
        exact ⟨hne, hd c hx⟩
    · rename_i h2
      refine ⟨'\'', _, rfl, Or.inr rfl, ?_⟩
      intro c hc
      refine ⟨?_, hd c hc⟩
      rintro rfl
      exact h2 (by simpa using hc)
  · rename_i h1
    refine ⟨'"', _, rfl, Or.inl rfl, ?_⟩
    intro c hc
    refine ⟨?_, hd c hc⟩
    rintro rfl
    exact h1 (by simpa using hc)

/-- **C12_redirect_page_escaped**: each anchor of the redirect page is
    `msg <a href=` q body q `>` text `</a>.` where the attribute body cannot leave its quotes or
    open a tag, the link text has no `<`/`>`, and the link text unescapes to the URL. -/
theorem C12_redirect_page_escaped (msg u : Text) :
    ∃ (q : Char) (body : Text),
      redirectAnchor msg u =
        msg ++ ['<', 'a', ' ', 'h', 'r', 'e', 'f', '='] ++ (q :: body ++ [q]) ++ ['>'] ++ htmlEscape u
          ++ ['<', '/', 'a', '>', '.'] ∧
      (q = '"' ∨ q = '\'') ∧ (∀ c ∈ body, c ≠ q ∧ c ≠ '<' ∧ c ≠ '>') ∧
      (∀ c ∈ htmlEscape u, c ≠ '<' ∧ c ≠ '>') ∧ htmlUnescape (htmlEscape u) = u := by
  obtain ⟨q, body, hq, hq', hb⟩ := quoteattr_delimited u
  exact ⟨q, body, by unfold redirectAnchor; rw [hq], hq', hb, htmlEscape_no_markup u,
    htmlUnescape_htmlEscape u⟩

/-! ### access log -/

/-- printable ASCII: 0x20..0x7E -/
def Printable (c : Char) : Prop := 32 ≤ c.toNat ∧ c.toNat ≤ 126
instance (c : Char) : Decidable (Printable c) := by unfold Printable; infer_instance

theorem undouble_subset (l : Text) : ∀ c ∈ undouble l, c ∈ l := by
  fun_induction undouble l with
  | case1 => simp
  | case2 c => simp
  | case3 a b rest h ih =>
    intro c hc
    simp only [List.mem_cons] at hc ⊢
    rcases hc with rfl | hc
    · exact Or.inl h.1.symm
    · exact Or.inr (Or.inr (ih c hc))
  | case4 a b rest h ih =>
    intro c hc
    simp only [List.mem_cons] at hc ⊢
    rcases hc with rfl | hc
    · exact Or.inl rfl
    · have := ih c hc
      simp only [List.mem_cons] at this
      exact Or.inr this

theorem reprByte_printable :
    ∀ b, b < 256 → (reprByte 34 b).all (fun c => decide (Printable c)) = true ∧
                   (reprByte 39 b).all (fun c => decide (Printable c)) = true := by
  decide +kernel

theorem reprQuote_cases (bs : List Nat) : reprQuote bs = 34 ∨ reprQuote bs = 39 := by
  unfold reprQuote; split <;> simp

theorem logEscape_printable (s : Text) : ∀ c ∈ logEscape s, Printable c := by
  intro c hc
  have hc' := undouble_subset _ c hc
  simp only [bytesReprBody, List.mem_flatMap, List.mem_map] at hc'
  obtain ⟨b, ⟨u, _, rfl⟩, hcb⟩ := hc'
  have hb := reprByte_printable u.toNat (UInt8.toNat_lt u)
  rcases reprQuote_cases ((utf8 (escQuote s)).map UInt8.toNat) with hq | hq
  · rw [hq] at hcb
    have := List.all_eq_true.mp hb.1 c hcb
    simpa using this
  · rw [hq] at hcb
    have := List.all_eq_true.mp hb.2 c hcb
    simpa using this

theorem renderMarked_all (esc : Text → Text) (P : Char → Prop)
    (hesc : ∀ v, ∀ c ∈ esc v, P c) (kw : List (Text × Text)) :
    ∀ (tpl : List Piece), (∀ pc ∈ tpl, ∀ s, pc = .lit s → ∀ c ∈ s, P c) →
      ∀ out, renderMarked esc kw tpl = some out → ∀ p ∈ out, P p.1 := by
  intro tpl
  induction tpl with
  | nil => intro _ out h; simp [renderMarked] at h; subst h; simp
  | cons pc rest ih =>
    intro hl out h
    have ih' := ih (fun pc' hpc' => hl pc' (by simp [hpc']))
    cases pc with
    | lit s =>
      simp only [renderMarked, Option.map_eq_some_iff] at h
      obtain ⟨r, hr, rfl⟩ := h
      intro p hp
      simp only [List.mem_append, List.mem_map] at hp
      rcases hp with ⟨c, hc, rfl⟩ | hp
      · exact hl (.lit s) (by simp) s rfl c hc
      · exact ih' r hr p hp
    | field n =>
      simp only [renderMarked] at h
      cases hlk : lookup kw n with
      | none => rw [hlk] at h; cases h
      | some v =>
        cases hr : renderMarked esc kw rest with
        | none => rw [hlk, hr] at h; cases h
        | some r =>
          rw [hlk, hr] at h
          have : out = (esc v).map (·, false) ++ r := by cases h; rfl
          subst this
          intro p hp
          simp only [List.mem_append, List.mem_map] at hp
          rcases hp with ⟨c, hc, rfl⟩ | hp
          · exact hesc v c hc
          · exact ih' r hr p hp

def litsPrintable : List Piece → Bool
  | [] => true
  | .lit s :: rest => s.all (fun c => decide (Printable c)) && litsPrintable rest
  | .field _ :: rest => litsPrintable rest

theorem litsPrintable_spec : ∀ tpl, litsPrintable tpl = true →
    ∀ pc ∈ tpl, ∀ s, pc = .lit s → ∀ c ∈ s, Printable c := by
  intro tpl
  induction tpl with
  | nil => intro _ pc hpc; cases hpc
  | cons x rest ih =>
    intro h pc hpc s hs c hc
    cases x with
    | lit t =>
      simp only [litsPrintable, Bool.and_eq_true] at h
      cases hpc with
      | head => cases hs; simpa using List.all_eq_true.mp h.1 c hc
      | tail _ hpc => exact ih h.2 pc hpc s hs c hc
    | field n =>
      simp only [litsPrintable] at h
      cases hpc with
      | head => cases hs
      | tail _ hpc => exact ih h pc hpc s hs c hc

/-- **C12_log_single_line_escaped**: every atom `LogManager.access` writes, for every input text,
    consists of printable ASCII only (no CR, LF, other control character, DEL or non-ASCII byte
    survives unescaped); and with the literal text of `access_log_format` (generated table) the
    whole entry is printable ASCII — in particular a single line. -/
theorem C12_log_single_line_escaped :
    (∀ s : Text, ∀ c ∈ logEscape s, Printable c) ∧
    (∀ (atoms : List (Text × Text)) (line : Text), accessLine atoms = some line →
      ∀ c ∈ line, Printable c ∧ c ≠ '\n' ∧ c ≠ '\r') := by
  refine ⟨logEscape_printable, ?_⟩
  intro atoms line h c hc
  simp only [accessLine, accessLineMarked, Option.map_eq_some_iff] at h
  obtain ⟨out, hout, rfl⟩ := h
  have hl : litsPrintable (toPieces accessLogFormat) = true := by decide +kernel
  have := renderMarked_all logEscape Printable logEscape_printable atoms _
    (litsPrintable_spec _ hl) out hout
  simp only [List.mem_map] at hc
  obtain ⟨p, hp, rfl⟩ := hc
  have hp' := this p hp
  refine ⟨hp', ?_, ?_⟩
  · rintro h; rw [h] at hp'; revert hp'; decide
  · rintro h; rw [h] at hp'; revert hp'; decide

/-- an ASCII byte `k` occurs in the UTF-8 encoding of a character only if the character is `k` -/
theorem utf8EncodeChar_ascii (c : Char) (k : Nat) (hk : k < 128) :
    ∀ b ∈ String.utf8EncodeChar c, b.toNat = k → c.toNat = k := by
  have hor : ∀ (x m : UInt8), 128 ≤ m.toNat → (x ||| m).toNat ≠ k := by
    intro x m hm
    rw [UInt8.toNat_or]
    have : m.toNat ≤ x.toNat ||| m.toNat := Nat.right_le_or
    omega
  intro b hb hbk
  rcases Char.utf8Size_eq c with h | h | h | h
  · rw [String.utf8EncodeChar_eq_singleton h] at hb
    simp only [List.mem_singleton] at hb
    subst hb
    rw [UInt32.toNat_toUInt8] at hbk
    have hle : c.val.toNat ≤ 127 := by
      unfold Char.utf8Size at h
      simp only at h
      split at h
      · rename_i h'; exact UInt32.le_iff_toNat_le.mp h'
      · split at h <;> (try split at h) <;> omega
    unfold Char.toNat
    omega
  · rw [String.utf8EncodeChar_eq_cons_cons h] at hb
    simp only [List.mem_cons, List.not_mem_nil, or_false] at hb
    rcases hb with rfl | rfl <;> exact absurd hbk (hor _ _ (by decide))
  · rw [String.utf8EncodeChar_eq_cons_cons_cons h] at hb
    simp only [List.mem_cons, List.not_mem_nil, or_false] at hb
    rcases hb with rfl | rfl | rfl <;> exact absurd hbk (hor _ _ (by decide))
  · rw [String.utf8EncodeChar_eq_cons_cons_cons_cons h] at hb
    simp only [List.mem_cons, List.not_mem_nil, or_false] at hb
    rcases hb with rfl | rfl | rfl | rfl <;> exact absurd hbk (hor _ _ (by decide))

theorem char_eq_of_toNat (c : Char) (d : Char) (h : c.toNat = d.toNat) : c = d := by
  apply Char.ext
  exact UInt32.toNat_inj.mp h

/-- "every double quote is immediately preceded by a backslash" (`p` = the previous character
    was a backslash) -/
def guardedAux : Bool → Text → Bool
  | _, [] => true
  | p, c :: rest => (c != '"' || p) && guardedAux (c == '\\') rest

def QuotesGuarded (l : Text) : Prop := guardedAux false l = true

/-- the same on bytes: every 34 is immediately preceded by 92 -/
def bguardAux : Bool → List Nat → Bool
  | _, [] => true
  | p, b :: rest => (b != 34 || p) && bguardAux (b == 92) rest

theorem guardedAux_mono (l : Text) : guardedAux false l = true → ∀ p, guardedAux p l = true := by
  intro h p
  cases l with
  | nil => rfl
  | cons c rest =>
    simp only [guardedAux, Bool.and_eq_true, Bool.or_eq_true, Bool.or_false] at h ⊢
    exact ⟨Or.inl h.1, h.2⟩

theorem guardedAux_noquote_append (t l : Text) (ht : ∀ c ∈ t, c ≠ '"')
    (hl : guardedAux false l = true) : ∀ p, guardedAux p (t ++ l) = true := by
  induction t with
  | nil => intro p; exact guardedAux_mono l hl p
  | cons c rest ih =>
    intro p
    have hc : c ≠ '"' := ht c (by simp)
    simp only [List.cons_append, guardedAux, Bool.and_eq_true, Bool.or_eq_true]
    exact ⟨Or.inl (by simpa using hc), ih (fun x hx => ht x (by simp [hx])) _⟩

theorem bguardAux_mono (l : List Nat) : bguardAux false l = true → ∀ p, bguardAux p l = true := by
  intro h p
  cases l with
  | nil => rfl
  | cons c rest =>
    simp only [bguardAux, Bool.and_eq_true, Bool.or_eq_true, Bool.or_false] at h ⊢
    exact ⟨Or.inl h.1, h.2⟩

theorem bguardAux_noquote_append (t l : List Nat) (ht : ∀ c ∈ t, c ≠ 34)
    (hl : bguardAux false l = true) : ∀ p, bguardAux p (t ++ l) = true := by
  induction t with
  | nil => intro p; exact bguardAux_mono l hl p
  | cons c rest ih =>
    intro p
    have hc : c ≠ 34 := ht c (by simp)
    simp only [List.cons_append, bguardAux, Bool.and_eq_true, Bool.or_eq_true]
    exact ⟨Or.inl (by simpa using hc), ih (fun x hx => ht x (by simp [hx])) _⟩

/-- `v.replace('\\\\', '\\')` keeps every quote guarded (a run of k ≥ 1 backslashes becomes
    ⌈k/2⌉ ≥ 1 backslashes) -/
theorem undouble_guarded (l : Text) : ∀ p, guardedAux p l = true → guardedAux p (undouble l) = true := by
  fun_induction undouble l with
  | case1 => intro p h; exact h
  | case2 c => intro p h; exact h
  | case3 a b rest hab ih =>
    intro p h
    obtain ⟨rfl, rfl⟩ := hab
    simp only [guardedAux, Bool.and_eq_true] at h ⊢
    refine ⟨by simp, ih _ ?_⟩
    have := h.2.2
    simpa using this
  | case4 a b rest hab ih =>
    intro p h
    simp only [guardedAux, Bool.and_eq_true] at h ⊢
    exact ⟨h.1, ih _ (by simp only [guardedAux, Bool.and_eq_true]; exact h.2)⟩

theorem reprByte_noquote :
    ∀ b, b < 256 → b ≠ 34 → (reprByte 39 b).all (fun c => c != '"') = true ∧
                            (reprByte 34 b).all (fun c => c != '"') = true := by
  decide +kernel

theorem flatMap_repr39_guarded (bytes : List Nat) (hlt : ∀ b ∈ bytes, b < 256) :
    ∀ p, bguardAux p bytes = true → guardedAux p (bytes.flatMap (reprByte 39)) = true := by
  induction bytes with
  | nil => intro p _; rfl
  | cons b rest ih =>
    intro p h
    have ih' := ih (fun x hx => hlt x (by simp [hx]))
    rw [List.flatMap_cons]
    simp only [bguardAux, Bool.and_eq_true, Bool.or_eq_true] at h
    by_cases h34 : b = 34
    · subst h34
      have : reprByte 39 34 = ['"'] := by decide
      rw [this]
      simp only [List.cons_append, List.nil_append, guardedAux, Bool.and_eq_true, Bool.or_eq_true]
      refine ⟨?_, ih' _ (by simpa using h.2)⟩
      rcases h.1 with h1 | h1
      · simp at h1
      · exact Or.inr h1
    · by_cases h92 : b = 92
      · subst h92
        have : reprByte 39 92 = ['\\', '\\'] := by decide
        rw [this]
        simp only [List.cons_append, List.nil_append, guardedAux, Bool.and_eq_true, Bool.or_eq_true]
        exact ⟨Or.inl (by decide), Or.inl (by decide), ih' _ (by simpa using h.2)⟩
      · have hnq := (reprByte_noquote b (hlt b (by simp)) h34).1
        have hrest : bguardAux false rest = true := by
          have : (b == 92) = false := by simpa using h92
          rw [this] at h; exact h.2
        apply guardedAux_noquote_append _ _ _ (ih' false hrest)
        intro c hc
        have := List.all_eq_true.mp hnq c hc
        simpa using this

theorem flatMap_repr34_guarded (bytes : List Nat) (hlt : ∀ b ∈ bytes, b < 256)
    (hno : ∀ b ∈ bytes, b ≠ 34) : ∀ p, guardedAux p (bytes.flatMap (reprByte 34)) = true := by
  intro p
  have := guardedAux_noquote_append (bytes.flatMap (reprByte 34)) [] ?_ rfl p
  · simpa using this
  · intro c hc
    simp only [List.mem_flatMap] at hc
    obtain ⟨b, hb, hcb⟩ := hc
    have := List.all_eq_true.mp (reprByte_noquote b (hlt b hb) (hno b hb)).2 c hcb
    simpa using this

theorem utf8_cons (c : Char) (t : Text) : utf8 (c :: t) = String.utf8EncodeChar c ++ utf8 t := by
  simp [utf8]

theorem escQuote_bytes_guarded (s : Text) :
    ∀ p, bguardAux p ((utf8 (escQuote s)).map UInt8.toNat) = true := by
  induction s with
  | nil => intro p; rfl
  | cons c t ih =>
    intro p
    have hcons : escQuote (c :: t) = (if c = '"' then ['\\', '"'] else [c]) ++ escQuote t := by
      simp [escQuote]
    rw [hcons]
    split
    · have : (utf8 (['\\', '"'] ++ escQuote t)).map UInt8.toNat
          = 92 :: 34 :: (utf8 (escQuote t)).map UInt8.toNat := by
        simp only [List.cons_append, List.nil_append, utf8_cons, List.map_append]
        rfl
      rw [this]
      simp only [bguardAux, Bool.and_eq_true, Bool.or_eq_true]
      exact ⟨Or.inl (by decide), Or.inr (by decide), ih _⟩
    · rename_i hc
      simp only [List.cons_append, List.nil_append, utf8_cons, List.map_append]
      apply bguardAux_noquote_append _ _ _ (ih false)
      intro b hb
      simp only [List.mem_map] at hb
      obtain ⟨u, hu, rfl⟩ := hb
      intro h34
      have := utf8EncodeChar_ascii c 34 (by decide) u hu h34
      exact hc (char_eq_of_toNat c '"' (by rw [this]; rfl))

theorem reprQuote_34 (bs : List Nat) (h : reprQuote bs = 34) : ∀ b ∈ bs, b ≠ 34 := by
  unfold reprQuote at h
  split at h
  · rename_i hc
    simp only [Bool.and_eq_true, Bool.not_eq_true', List.contains_eq_mem, decide_eq_false_iff_not] at hc
    intro b hb hb34
    subst hb34
    exact hc.2 hb
  · cases h

/-- **C12_log_quote_guarded**: in every atom `LogManager.access` writes, for every input text,
    every double quote is immediately preceded by a backslash. -/
theorem C12_log_quote_guarded (s : Text) : QuotesGuarded (logEscape s) := by
  unfold QuotesGuarded logEscape
  apply undouble_guarded
  unfold bytesReprBody
  have hlt : ∀ b ∈ (utf8 (escQuote s)).map UInt8.toNat, b < 256 := map_toNat_lt _
  rcases reprQuote_cases ((utf8 (escQuote s)).map UInt8.toNat) with hq | hq
  · rw [hq]
    exact flatMap_repr34_guarded _ hlt (reprQuote_34 _ hq) false
  · rw [hq]
    exact flatMap_repr39_guarded _ hlt false (escQuote_bytes_guarded s false)

/-- the stronger reading of "double quotes are escaped": every double quote is preceded by an
    ODD number of backslashes, i.e. a reader that takes `\\` for an escaped backslash and `\"` for
    an escaped quote never sees a bare quote (`odd` = the backslash run ending here is odd) -/
def strongAux : Bool → Text → Bool
  | _, [] => true
  | odd, c :: rest => (c != '"' || odd) && strongAux (c == '\\' && !odd) rest

def QuotesStrong (l : Text) : Prop := strongAux false l = true

/-- the full statement under the stronger reading -/
def C12_log_quote_strong : Prop := ∀ s : Text, QuotesStrong (logEscape s)

/-- **F13**: false on the unchanged code.  Witness: the two characters `\"` are logged as the
    three characters `\\"` — an escaped backslash followed by a bare quote. -/
theorem C12_log_quote_strong_false : ¬ C12_log_quote_strong := by
  intro h
  have h1 : logEscape ['\\', '"'] = ['\\', '\\', '"'] := by decide +kernel
  have := h ['\\', '"']
  unfold QuotesStrong at this
  rw [h1] at this
  revert this
  decide

/-! ### the stronger reading holds for backslash-free atoms -/

/-- scanner over the `repr` text: `n` = neutral, `b1` = one backslash seen, `b2` = the pair `\\`
    seen (a double quote must follow) -/
inductive St where
  | n | b1 | b2
  deriving DecidableEq

/-- run the scanner; `none` = a quote without its `\\` pair, or a `\\` pair without a quote -/
def run : St → Text → Option St
  | st, [] => some st
  | .n, c :: rest => if c = '\\' then run .b1 rest else if c = '"' then none else run .n rest
  | .b1, c :: rest => if c = '\\' then run .b2 rest else if c = '"' then none else run .n rest
  | .b2, c :: rest => if c = '"' then run .n rest else none

theorem run_append (t l : Text) : ∀ st, run st (t ++ l) = (run st t).bind fun st' => run st' l := by
  induction t with
  | nil => intro st; simp [run]
  | cons c rest ih =>
    intro st
    cases st <;> simp only [List.cons_append, run] <;> (repeat' split) <;> simp [ih]

/-- what the scanner accepts, `str.replace('\\\\', '\\')` turns into text in which every quote
    has an odd run of backslashes before it -/
theorem undouble_strong (l : Text) :
    ((run .n l).isSome → strongAux false (undouble l) = true) ∧
    ((run .b2 l).isSome → strongAux true (undouble l) = true) ∧
    ((run .b1 l).isSome → (∀ rest, l ≠ '\\' :: rest) → strongAux true (undouble l) = true) := by
  fun_induction undouble l with
  | case1 => simp [strongAux]
  | case2 c =>
    refine ⟨?_, ?_, ?_⟩
    · intro h
      by_cases h1 : c = '\\'
      · subst h1; decide
      · by_cases h2 : c = '"'
        · subst h2; simp [run] at h
        · simp [strongAux, h2]
    · intro h
      by_cases h2 : c = '"'
      · subst h2; decide
      · simp [run, h2] at h
    · intro h hne
      have h1 : c ≠ '\\' := fun hc => hne [] (by rw [hc])
      by_cases h2 : c = '"'
      · subst h2; simp [run] at h
      · simp [strongAux]
  | case3 a b rest hab ih =>
    obtain ⟨rfl, rfl⟩ := hab
    refine ⟨?_, ?_, ?_⟩
    · intro h
      have h' : (run .b2 rest).isSome := by simpa [run] using h
      have := ih.2.1 h'
      simp [strongAux, this]
    · intro h; simp [run] at h
    · intro _ hne; exact absurd rfl (hne _)
  | case4 a b rest hab ih =>
    refine ⟨?_, ?_, ?_⟩
    · intro h
      by_cases h1 : a = '\\'
      · subst h1
        have hb : b ≠ '\\' := fun hb => hab ⟨rfl, hb⟩
        have h' : (run .b1 (b :: rest)).isSome := by simpa [run] using h
        have := ih.2.2 h' (fun r hr => hb (by cases hr; rfl))
        simp [strongAux, this]
      · by_cases h2 : a = '"'
        · subst h2; simp [run] at h
        · have h' : (run .n (b :: rest)).isSome := by simpa [run, h1, h2] using h
          have := ih.1 h'
          have e : (a == '\\') = false := by simp [h1]
          simp [strongAux, h2, e, this]
    · intro h
      by_cases h2 : a = '"'
      · subst h2
        have h' : (run .n (b :: rest)).isSome := by simpa [run] using h
        have := ih.1 h'
        simp [strongAux, this]
      · simp [run, h2] at h
    · intro h hne
      have h1 : a ≠ '\\' := fun hc => hne (b :: rest) (by rw [hc])
      by_cases h2 : a = '"'
      · subst h2; simp [run, h1] at h
      · have h' : (run .n (b :: rest)).isSome := by simpa [run, h1, h2] using h
        have := ih.1 h'
        simp [strongAux, this]

/-- a byte that is neither `"` nor `\` is written as a token the scanner passes over -/
theorem reprByte_run :
    ∀ b, b < 256 → b ≠ 34 → b ≠ 92 →
      run .n (reprByte 39 b) = some .n ∧ run .n (reprByte 34 b) = some .n := by
  decide +kernel

theorem flatMap_reprByte_run (q : Nat) (hq : q = 34 ∨ q = 39) (bs : List Nat)
    (h : ∀ b ∈ bs, b < 256 ∧ b ≠ 34 ∧ b ≠ 92) : run .n (bs.flatMap (reprByte q)) = some .n := by
  induction bs with
  | nil => rfl
  | cons b rest ih =>
    rw [List.flatMap_cons, run_append]
    have hb := h b (by simp)
    have := reprByte_run b hb.1 hb.2.1 hb.2.2
    rcases hq with rfl | rfl
    · rw [this.2]; exact ih (fun x hx => h x (by simp [hx]))
    · rw [this.1]; exact ih (fun x hx => h x (by simp [hx]))

/-- bytes of one character of the atom after `v.replace('"', '\\"').encode('utf8')` -/
def charBytes (c : Char) : List Nat :=
  if c = '"' then [92, 34] else (String.utf8EncodeChar c).map UInt8.toNat

theorem bytes_eq_flatMap (s : Text) :
    (utf8 (escQuote s)).map UInt8.toNat = s.flatMap charBytes := by
  induction s with
  | nil => rfl
  | cons c t ih =>
    have hcons : escQuote (c :: t) = (if c = '"' then ['\\', '"'] else [c]) ++ escQuote t := by
      simp [escQuote]
    rw [hcons, List.flatMap_cons, ← ih]
    unfold charBytes
    split
    · simp only [List.cons_append, List.nil_append, utf8_cons, List.map_append]; rfl
    · simp only [List.cons_append, List.nil_append, utf8_cons, List.map_append]

theorem repr_accepted (q : Nat) (s : Text) (hs : ∀ c ∈ s, c ≠ '\\')
    (hq : q = 39 ∨ (q = 34 ∧ ∀ c ∈ s, c ≠ '"')) :
    run .n ((s.flatMap charBytes).flatMap (reprByte q)) = some .n := by
  induction s with
  | nil => rfl
  | cons c t ih =>
    have iht := ih (fun x hx => hs x (by simp [hx]))
      (hq.elim Or.inl fun h => Or.inr ⟨h.1, fun x hx => h.2 x (by simp [hx])⟩)
    rw [List.flatMap_cons, List.flatMap_append, run_append]
    have hc : c ≠ '\\' := hs c (by simp)
    by_cases hquote : c = '"'
    · subst hquote
      rcases hq with rfl | ⟨_, h⟩
      · have : run .n (List.flatMap (reprByte 39) (charBytes '"')) = some .n := by decide +kernel
        rw [this]; exact iht
      · exact absurd rfl (h '"' (by simp))
    · have hq' : q = 34 ∨ q = 39 := hq.elim Or.inr fun h => Or.inl h.1
      have : run .n (List.flatMap (reprByte q) (charBytes c)) = some .n := by
        apply flatMap_reprByte_run q hq'
        intro b hb
        unfold charBytes at hb
        rw [if_neg hquote] at hb
        simp only [List.mem_map] at hb
        obtain ⟨u, hu, rfl⟩ := hb
        refine ⟨UInt8.toNat_lt u, ?_, ?_⟩
        · intro h34
          exact hquote (char_eq_of_toNat c '"' (by rw [utf8EncodeChar_ascii c 34 (by decide) u hu h34]; rfl))
        · intro h92
          exact hc (char_eq_of_toNat c '\\' (by rw [utf8EncodeChar_ascii c 92 (by decide) u hu h92]; rfl))
      rw [this]; exact iht

/-- **C12_log_quote_strong_partial**: an atom WITHOUT a backslash is logged so that every double
    quote is preceded by an odd number of backslashes (exactly one).  The hypothesis excludes
    exactly the F13 witness class. -/
theorem C12_log_quote_strong_partial (s : Text) (hs : ∀ c ∈ s, c ≠ '\\') :
    QuotesStrong (logEscape s) := by
  unfold QuotesStrong logEscape bytesReprBody
  apply (undouble_strong _).1
  rw [bytes_eq_flatMap]
  rcases reprQuote_cases (s.flatMap charBytes) with hq | hq
  · rw [hq]
    have hno := reprQuote_34 _ hq
    have : run .n ((s.flatMap charBytes).flatMap (reprByte 34)) = some .n := by
      apply repr_accepted 34 s hs (Or.inr ⟨rfl, ?_⟩)
      intro c hc hcq
      subst hcq
      exact hno 34 (by
        simp only [List.mem_flatMap]
        exact ⟨'"', hc, by decide⟩) rfl
    rw [this]; rfl
  · rw [hq]
    rw [repr_accepted 39 s hs (Or.inl rfl)]; rfl

/-- non-vacuity: a backslash-free atom with a quote, and what is logged for it -/
example : (∀ c ∈ ['a', '"', 'b'], c ≠ '\\') ∧ logEscape ['a', '"', 'b'] = ['a', '\\', '"', 'b'] := by
  decide +kernel

/-! ### the whole access-log line -/

/-- on the marked line: every double quote that does NOT come from the format literal is
    immediately preceded by a backslash that does not come from the literal either -/
def gmAux : Bool → List (Char × Bool) → Bool
  | _, [] => true
  | p, (c, lit) :: rest => (lit || c != '"' || p) && gmAux (!lit && c == '\\') rest

theorem gmAux_mono (l : List (Char × Bool)) : gmAux false l = true → ∀ p, gmAux p l = true := by
  intro h p
  cases l with
  | nil => rfl
  | cons x rest =>
    obtain ⟨c, lit⟩ := x
    simp only [gmAux, Bool.and_eq_true, Bool.or_eq_true, Bool.or_false] at h ⊢
    exact ⟨Or.inl h.1, h.2⟩

theorem gmAux_field (t : Text) (X : List (Char × Bool)) (hX : gmAux false X = true) :
    ∀ p, guardedAux p t = true → gmAux p (t.map (·, false) ++ X) = true := by
  induction t with
  | nil => intro p _; exact gmAux_mono X hX p
  | cons c rest ih =>
    intro p h
    simp only [guardedAux, Bool.and_eq_true] at h
    simp only [List.map_cons, List.cons_append, gmAux, Bool.and_eq_true, Bool.false_or, Bool.not_false,
      Bool.true_and]
    exact ⟨h.1, ih _ h.2⟩

theorem gmAux_lit (s : Text) (X : List (Char × Bool)) (hX : gmAux false X = true) :
    ∀ p, gmAux p (s.map (·, true) ++ X) = true := by
  induction s with
  | nil => intro p; exact gmAux_mono X hX p
  | cons c rest ih =>
    intro p
    simp only [List.map_cons, List.cons_append, gmAux, Bool.true_or, Bool.not_true, Bool.false_and,
      Bool.true_and]
    exact ih false

/-- **C12_log_line_quotes_guarded**: in the whole entry, for every format and every atom values,
    each double quote that comes from an atom (request line, Referer, User-Agent, login, host …)
    is immediately preceded by a backslash coming from the same atom; the only bare quotes are
    the ones the format itself writes. -/
theorem C12_log_line_quotes_guarded (atoms : List (Text × Text)) :
    ∀ (tpl : List Piece) (out : List (Char × Bool)),
      renderMarked logEscape atoms tpl = some out → gmAux false out = true := by
  intro tpl
  induction tpl with
  | nil => intro out h; simp [renderMarked] at h; subst h; rfl
  | cons pc rest ih =>
    intro out h
    cases pc with
    | lit s =>
      simp only [renderMarked, Option.map_eq_some_iff] at h
      obtain ⟨r, hr, rfl⟩ := h
      exact gmAux_lit s r (ih r hr) false
    | field n =>
      simp only [renderMarked] at h
      cases hl : lookup atoms n with
      | none => rw [hl] at h; cases h
      | some v =>
        cases hr : renderMarked logEscape atoms rest with
        | none => rw [hl, hr] at h; cases h
        | some r =>
          rw [hl, hr] at h
          have : out = (logEscape v).map (·, false) ++ r := by cases h; rfl
          subst this
          exact gmAux_field _ r (ih r hr) false (C12_log_quote_guarded v)

end CpProofs.C12
