import CpModel.HeaderEnc
import CpModel.Escape
/-!
  C12 — client-controlled data cannot break out of headers, error pages or logs.

  Theorems about `CpModel.HeaderEnc` / `CpModel.Escape`.  Every statement quantifies over ALL
  texts (lists of Unicode scalar values) / ALL byte strings; nothing is bounded.
-/
namespace CpProofs.C12
open CpModel.HeaderEnc CpModel.Escape CpModel.Gen.C12

/-- a byte the statement allows on the wire in a status line / header name / header value -/
def Clean (b : UInt8) : Prop := 32 ≤ b.toNat ∧ b.toNat ≠ 127

instance (b : UInt8) : Decidable (Clean b) := by unfold Clean; infer_instance

/-! ### the delete table (regenerated from the live module) -/

/-- every control octet (0..31, 127) is in the table `encode_header_item` deletes -/
theorem deleteTable_covers_controls :
    ∀ n, n < 256 → (n < 32 ∨ n = 127) → deleteBytes.contains (UInt8.ofNat n) = true := by
  decide +kernel

theorem deleteCtl_clean (bs : Bytes) : ∀ b ∈ deleteCtl bs, Clean b := by
  intro b hb
  simp only [deleteCtl, List.mem_filter] at hb
  have hnot : deleteBytes.contains b = false := by simpa using hb.2
  have hlt : b.toNat < 256 := UInt8.toNat_lt b
  have hb' : UInt8.ofNat b.toNat = b := UInt8.ofNat_toNat
  unfold Clean
  refine ⟨?_, ?_⟩
  · by_cases h : b.toNat < 32
    · have := deleteTable_covers_controls b.toNat hlt (Or.inl h)
      rw [hb'] at this; rw [this] at hnot; exact absurd hnot (by simp)
    · omega
  · intro h
    have := deleteTable_covers_controls b.toNat hlt (Or.inr h)
    rw [hb'] at this; rw [this] at hnot; exact absurd hnot (by simp)

/-- **C12_headermap_clean**: for every text, every byte of `encode_header_item(text)` is ≥ 32 and
    ≠ 127 (whatever branch `encode` took). -/
theorem C12_headermap_clean (s : Text) (out : Bytes) (h : encodeHeaderItem s = .ok out) :
    ∀ b ∈ out, Clean b := by
  unfold encodeHeaderItem at h
  cases he : encode s with
  | error e => rw [he] at h; cases h
  | ok v =>
    rw [he] at h
    have : out = deleteCtl v := by cases h; rfl
    subst this
    exact deleteCtl_clean v

/-- the same for `bytes` items -/
theorem C12_headermap_bytes_clean (bs : Bytes) : ∀ b ∈ encodeHeaderItemBytes bs, Clean b :=
  deleteCtl_clean bs

end CpProofs.C12
