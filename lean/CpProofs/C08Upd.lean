import CpModel.ConfigUpdate
import CpProofs.C08
/-!
  C08, `cherrypy.config.update`: forms of the input, environments.
-/
namespace CpProofs.C08
open CpModel.Dispatch CpModel.Config CpModel.ConfigUpdate

theorem hasKey_iff_mem (c : Conf) (k : Name) : hasKey c k = true ↔ k ∈ c.map (·.1) := by
  unfold hasKey
  simp [List.any_eq_true]

theorem cget_isSome_of_hasKey {c : Conf} {k : Name} (h : hasKey c k = true) : (cget c k).isSome = true := by
  induction c with
  | nil => simp [hasKey] at h
  | cons x xs ih =>
    obtain ⟨k', v⟩ := x
    simp only [cget]
    cases hx : cget xs k with
    | some w => rfl
    | none =>
      by_cases hk : k' = k
      · simp [hk]
      · have : hasKey xs k = true := by
          simp only [hasKey, List.any_cons, Bool.or_eq_true, decide_eq_true_eq] at h
          rcases h with h | h
          · exact absurd h hk
          · exact h
        have := ih this
        rw [hx] at this
        cases this

theorem cget_filter_absent (env c : Conf) (k : Name) (hk : hasKey c k = true) :
    cget (env.filter fun (k', _) => !hasKey c k') k = none := by
  apply cget_none_of_not_mem
  intro hm
  rw [List.mem_map] at hm
  obtain ⟨⟨k', v⟩, hmem, he⟩ := hm
  rw [List.mem_filter] at hmem
  dsimp only at he
  subst he
  simp [hk] at hmem

theorem cget_filter_present (env c : Conf) (k : Name) (hk : hasKey c k = false) :
    cget (env.filter fun (k', _) => !hasKey c k') k = cget env k := by
  have hp : (fun (x : Name) => !hasKey c x) k = true := by simp [hk]
  exact cget_filter_key (fun x => !hasKey c x) k hp env

/-- **Environments.**  With `environment: <name>` in an update, every key gets: the update's own entry when
    it has one (explicit beats the template), else the entry of the environment table, else nothing. -/
theorem C08_env_expansion (envs : List (List Char × Conf)) (c env c' : Conf) (n : List Char) (k : Name)
    (hv : cget c environmentKey = some (.str n)) (hn : n ≠ [])
    (hl : lookup envs n = some env) (h : expandEnv envs c = .ok c') :
    cget c' k = if hasKey c k then cget c k else cget env k := by
  unfold expandEnv at h
  rw [hv] at h
  have ht : truthy (.str n) = true := by
    cases n with
    | nil => exact absurd rfl hn
    | cons a as => rfl
  simp only [ht, Bool.not_true, Bool.false_eq_true, if_false, hl] at h
  injection h with h
  subst h
  rw [get_append]
  by_cases hk : hasKey c k = true
  · rw [cget_filter_absent _ _ _ hk]
    simp [hk]
  · have hk' : hasKey c k = false := by simpa using hk
    rw [cget_filter_present _ _ _ hk', cget_toDict]
    simp only [hk', Bool.false_eq_true, if_false]
    cases he : cget env k with
    | some w => rfl
    | none =>
      exact cget_none_of_not_mem (fun hm => by
        have := (hasKey_iff_mem c k).mpr hm
        rw [hk'] at this; cases this)

/-- no (or a falsy) `environment` entry: the update is taken as it is -/
theorem C08_env_absent (envs : List (List Char × Conf)) (c : Conf) (h : cget c environmentKey = none) :
    expandEnv envs c = .ok c := by
  unfold expandEnv
  rw [h]

/-- an environment name that is not in the table is an error (KeyError), nothing is applied -/
theorem C08_env_unknown (envs : List (List Char × Conf)) (cfg c : Conf) (n : List Char)
    (hv : cget (withStaticdir c) environmentKey = some (.str n)) (hn : n ≠ [])
    (hl : lookup envs n = none) :
    update envs cfg (.flat c) = some (.error .unknownEnvironment) := by
  have ht : truthy (.str n) = true := by
    cases n with
    | nil => exact absurd rfl hn
    | cons a as => rfl
  simp [update, globalOf, expandEnv, hv, ht, hl]

/-- **Sectioned input** (an INI file, a file name, a dict of sections): only the `[global]` section reaches
    the global config; the other sections do not matter. -/
theorem C08_update_global_section (envs : List (List Char × Conf)) (cfg : Conf)
    (secs secs' : List (List Char × Conf)) (h : lookup secs globalName = lookup secs' globalName) :
    update envs cfg (.sections secs) = update envs cfg (.sections secs') := by
  simp [update, globalOf, h]

/-- … and gives what the same entries as a plain dict give (file = dict). -/
theorem C08_update_file_eq_dict (envs : List (List Char × Conf)) (cfg c : Conf)
    (secs : List (List Char × Conf)) (h : lookup secs globalName = some c) :
    update envs cfg (.sections secs) = update envs cfg (.flat c) := by
  simp [update, globalOf, h]

/-- **Later updates win**, key by key; what is handed to the namespaces is the update (expanded), not the
    whole config. -/
theorem C08_update_later_wins (envs : List (List Char × Conf)) (cfg : Conf) (i : Input) (r : Result) (k : Name)
    (h : update envs cfg i = some (.ok r)) :
    cget r.config k = match cget r.handed k with
      | some v => some v
      | none => cget cfg k := by
  unfold update at h
  cases hg : globalOf i with
  | none => simp [hg] at h
  | some c =>
    simp only [hg, Option.map_some, Option.some.injEq] at h
    split at h
    · injection h with h; subst h; exact get_append _ _ _
    · cases h

/-- `cherrypy.config[k] = v`: that key reads `v` afterwards, every other key as before. -/
theorem C08_setitem (cfg : Conf) (k k' : Name) (v : Val) :
    cget (setItem cfg k v).config k' = if k = k' then some v else cget cfg k' := by
  unfold setItem
  rw [get_append]
  by_cases h : k = k'
  · simp [cget, h]
  · simp [cget, h]

/-! ### the live table -/

def falseVal : Option Val := some (.bool false)

/-- every environment of the live table turns the autoreloader and the checker off … -/
theorem C08_env_live_all : ∀ e ∈ liveEnvs,
    cget e.2 "engine.autoreload.on".toList = falseVal ∧ cget e.2 "checker.on".toList = falseVal := by
  decide

/-- … `production` and `embedded` also silence the screen log and hide tracebacks -/
theorem C08_env_live_production :
    ∀ n ∈ ["production".toList, "embedded".toList], ∃ env, lookup liveEnvs n = some env ∧
      cget env "log.screen".toList = falseVal ∧ cget env "request.show_tracebacks".toList = falseVal := by
  decide

example : (update liveEnvs [("log.screen".toList, .bool true)]
    (.flat [("environment".toList, .str "production".toList), ("checker.on".toList, .bool true)])).map
      (fun r => r.toOption.map fun r => (cget r.config "log.screen".toList, cget r.config "checker.on".toList)) =
    some (some (some (.bool false), some (.bool true))) := by decide

end CpProofs.C08
