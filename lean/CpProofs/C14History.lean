import CpModel.SessionStore
import CpProofs.C14Lemmas
import CpProofs.C14
/-!
  C14 — statements about the states reachable from the empty store (induction over the whole history):
  every stored id was drawn from the id source, so — for an injective source — an id issued in place of
  a refused cookie differs from every id ever drawn, live or not, and `FutureNot` (the hypothesis of
  `C14_no_resurrection`) holds for every id ever issued.
-/
namespace CpProofs.C14
open CpModel.SessionStore

/-- every stored id was drawn from the id source -/
def Inv (cfg : Cfg) (st : St) : Prop := ∀ i, has st.store i = true → ∃ k, k < st.ctr ∧ i = cfg.gen k

theorem has_of_mem {s : Store} {i : Id} {r : Rec} (h : (i, r) ∈ s) : has s i = true := by
  cases hl : lookup s i with
  | none => exact absurd h (not_mem_of_lookup_none hl r)
  | some q => simp [has, hl]

theorem has_sub {s s' : Store} (hsub : ∀ p, p ∈ s' → p ∈ s) {i : Id} (h : has s' i = true) :
    has s i = true := by
  obtain ⟨r, hr⟩ := has_true_iff.mp h
  exact has_of_mem (hsub _ (lookup_mem hr))

theorem request_inv (cfg : Cfg) (st : St) (ck : Cookie) (hops : List HOp) (hinv : Inv cfg st) :
    Inv cfg (request cfg st ck hops).1 := by
  unfold request
  split
  · exact hinv
  · rename_i s0 st0 hi
    obtain ⟨e1, _, _, _, _, _, e7, ho⟩ := initSess_spec hi
    -- invariant along the handler: the store only shrinks, the counter only grows, the session id has
    -- an origin
    have hfin := runHops_induct (cfg := cfg)
      (fun st1 s => (∀ p, p ∈ st1.store → p ∈ st.store) ∧ Origin cfg st ck st1 s) hops
      (fun st1 s h _ hp =>
        ⟨fun p hm => hp.1 p (hop_store_sub cfg st1 s h p hm), hop_origin st1 s h hp.2⟩)
      st0 s0
      ⟨fun p hm => e1 ▸ hm, e7, by
        rcases ho with ⟨a, b, _⟩ | ⟨_, n, a, b, c⟩
        · exact Or.inl ⟨a, b⟩
        · exact Or.inr ⟨n, a, b, c⟩⟩
    have key : ∀ st1 s1, (∀ p, p ∈ st1.store → p ∈ st.store) → Origin cfg st ck st1 s1 →
        Inv cfg st1 ∧ ∃ k, k < st1.ctr ∧ s1.id = cfg.gen k := by
      intro st1 s1 hsub horg
      refine ⟨fun j hj => ?_, ?_⟩
      · obtain ⟨k, hk, hjk⟩ := hinv j (has_sub hsub hj)
        exact ⟨k, Nat.lt_of_lt_of_le hk horg.1, hjk⟩
      · rcases horg.2 with ⟨_, b⟩ | ⟨n, _, b, c⟩
        · obtain ⟨k, hk, hjk⟩ := hinv _ b
          exact ⟨k, Nat.lt_of_lt_of_le hk horg.1, hjk⟩
        · exact ⟨n, b, c⟩
    split
    · rename_i st1 s1 hr
      rw [hr] at hfin
      simp only [HRes.st, HRes.sess] at hfin
      obtain ⟨hI, k, hk, hid⟩ := key st1 s1 hfin.1 hfin.2
      simp only [saveSess]
      split
      · intro j hj
        simp only at hj ⊢
        by_cases hje : j = s1.id
        · exact ⟨k, hk, hje ▸ hid⟩
        · have : has st1.store j = true := by
            simp only [has] at hj ⊢
            rw [lookup_upsert_ne _ _ hje] at hj
            exact hj
          exact hI j this
      · exact hI
    · rename_i e st1 s1 hr
      rw [hr] at hfin
      simp only [HRes.st, HRes.sess] at hfin
      exact (key st1 s1 hfin.1 hfin.2).1

theorem step_inv (cfg : Cfg) (st : St) (op : Op) (hinv : Inv cfg st) : Inv cfg (step cfg st op).1 := by
  cases op with
  | req ck hops => exact request_inv cfg st ck hops hinv
  | advance d => exact hinv
  | sweep =>
    simp only [step]
    split
    · exact fun j hj => hinv j (has_sub (fun p hm => mem_sweepFile_sub hm) hj)
    · exact fun j hj => hinv j (has_sub (fun p hm => (mem_sweepRam (i := p.1) (r := p.2)).mp hm |>.1) hj)
  | tear i e =>
    simp only [step]
    split
    · rename_i hc
      intro j hj
      simp only at hj
      by_cases hje : j = i
      · subst hje
        simp only [Bool.and_eq_true] at hc
        exact hinv j hc.2
      · have : has st.store j = true := by
          simp only [has] at hj ⊢
          rw [lookup_upsert_ne _ _ hje] at hj
          exact hj
        exact hinv j this
    · exact hinv

/-- the invariant holds in every state reachable from the empty store, by any history -/
theorem run_inv (cfg : Cfg) (ops : List Op) (st : St) (hinv : Inv cfg st) : Inv cfg (runSt cfg st ops) := by
  induction ops generalizing st with
  | nil => exact hinv
  | cons o os ih => rw [runSt_cons]; exact ih _ (step_inv cfg st o hinv)

theorem inv_empty (cfg : Cfg) : Inv cfg {} := by
  intro i hi
  simp [has, lookup] at hi

/-- **No fixation, for every history.**  After any history from the empty store, whatever cookie is
    presented and whatever the handler does: the response id is the presented one only if the store
    holds it; otherwise it is a draw made during this request, and — the id source being injective — it
    differs from every id the store holds and from every id ever drawn before. -/
theorem C14_no_fixation_history (cfg : Cfg) (hinj : ∀ a b, cfg.gen a = cfg.gen b → a = b)
    (ops : List Op) (ck : Cookie) (hops : List HOp) (i : Id)
    (h : (request cfg (runSt cfg {} ops) ck hops).2.cookie = some i) :
    (Cookie.presented ck = some i ∧ has (runSt cfg {} ops).store i = true) ∨
    ((∀ j, has (runSt cfg {} ops).store j = true → j ≠ i) ∧
     (∀ k, k < (runSt cfg {} ops).ctr → cfg.gen k ≠ i)) := by
  rcases C14_no_fixation cfg _ ck hops i h with h1 | ⟨n, hn, _, hi⟩
  · exact Or.inl h1
  · right
    have hinv := run_inv cfg ops {} (inv_empty cfg)
    have hk : ∀ k, k < (runSt cfg {} ops).ctr → cfg.gen k ≠ i := by
      intro k hk e
      rw [hi] at e
      have := hinj _ _ e
      omega
    refine ⟨fun j hj e => ?_, hk⟩
    obtain ⟨k, hk1, hk2⟩ := hinv j hj
    exact hk k hk1 (hk2 ▸ e)

/-- the hypothesis `FutureNot` of `C14_no_resurrection` holds for every id ever drawn -/
theorem futureNot_of_drawn (cfg : Cfg) (hinj : ∀ a b, cfg.gen a = cfg.gen b → a = b) (st : St) (k : Nat)
    (hk : k < st.ctr) : FutureNot cfg st (cfg.gen k) := by
  intro n hn e
  have := hinj _ _ e
  omega

/-- ... in particular for every id the store holds in a reachable state -/
theorem futureNot_of_stored (cfg : Cfg) (hinj : ∀ a b, cfg.gen a = cfg.gen b → a = b) (ops : List Op)
    (i : Id) (hi : has (runSt cfg {} ops).store i = true) : FutureNot cfg (runSt cfg {} ops) i := by
  obtain ⟨k, hk, e⟩ := run_inv cfg ops {} (inv_empty cfg) i hi
  rw [e]
  exact futureNot_of_drawn cfg hinj _ k hk

/-! ### persistence whatever the handler does after its first read -/

theorem hop_reads_head (cfg : Cfg) (st : St) (s : Sess) (h : HOp) (d : Data)
    (hp : s.reads.head? = some d) : (hop cfg st s h).sess.reads.head? = some d := by
  have keep : ∀ s' : Sess, s'.reads = s.reads → s'.reads.head? = some d := fun s' e => by rw [e]; exact hp
  cases h with
  | read =>
    simp only [hop]; split
    · exact hp
    · rename_i s' hs'
      have e3 := (ensureLoaded_spec hs').2.2.1
      show (s'.reads ++ [s'.data]).head? = some d
      rw [e3]
      cases hr : s.reads with
      | nil => rw [hr] at hp; cases hp
      | cons a t => rw [hr] at hp; simpa using hp
  | write k v =>
    simp only [hop]; split
    · exact hp
    · rename_i s' hs'; exact keep _ (ensureLoaded_spec hs').2.2.1
  | delKey k =>
    simp only [hop]; split
    · exact hp
    · rename_i s' hs'; exact keep _ (ensureLoaded_spec hs').2.2.1
  | clear =>
    simp only [hop]; split
    · exact hp
    · rename_i s' hs'; exact keep _ (ensureLoaded_spec hs').2.2.1
  | regenerate => simp only [hop]; split <;> exact hp
  | delete => simp only [hop]; split <;> exact hp
  | expire => exact hp
  | acc a =>
    simp only [hop]; split
    · exact hp
    · rename_i s' hs'
      have e3 := (ensureLoaded_spec hs').2.2.1
      show (s'.reads ++ [(a.apply s'.data).2]).head? = some d
      rw [e3]
      cases hr : s.reads with
      | nil => rw [hr] at hp; cases hp
      | cons a t => rw [hr] at hp; simpa using hp
  | len => exact hp
  | raise => exact hp

/-- **Persistence, any handler.**  While the record under `i` is unexpired, a request presenting `i`
    whose handler starts by reading sees exactly the saved data first — whatever the handler does
    afterwards (write, regenerate, delete, ...), and also when it ends in an error. -/
theorem C14_load_live_any_handler (cfg : Cfg) (st : St) (i : Id) (d : Data) (e : Nat) (hs : List HOp)
    (hl : lookup st.store i = some (.good d e)) (hnow : st.now ≤ e) :
    (request cfg st (.id i) (.read :: hs)).2.reads.head? = some d := by
  have hhas : has st.store i = true := by simp [has, hl]
  have hload : loadData st i = some d := by
    unfold loadData
    rw [hl]
    simp only
    rw [if_neg (by omega)]
  unfold request
  simp only [initSess, hhas, if_true, runHops, hop, ensureLoaded, hload]
  simp only [Bool.false_eq_true, if_false]
  have hfin := runHops_induct (cfg := cfg) (fun _ s => s.reads.head? = some d) hs
    (fun st1 s h _ hp => hop_reads_head cfg st1 s h d hp) st
    { id := i, data := d, loaded := true, reads := [] ++ [d] } rfl
  split
  · rename_i st1 s1 hr
    rw [hr] at hfin
    exact hfin
  · rename_i x st1 s1 hr
    rw [hr] at hfin
    exact hfin

/-- **C14_persist, any handler**: after every history of operations that do not present `i`, ending
    no later than the expiry, the next request presenting `i` reads the saved data first. -/
theorem C14_persist_any_handler (cfg : Cfg) (ops : List Op) (st : St) (i : Id) (d : Data) (e : Nat)
    (hs : List HOp) (hq : ∀ op ∈ ops, Quiet i op) (hl : lookup st.store i = some (.good d e))
    (hend : (runSt cfg st ops).now + margin cfg ≤ e) :
    (request cfg (runSt cfg st ops) (.id i) (.read :: hs)).2.reads.head? = some d :=
  C14_load_live_any_handler cfg _ i d e hs (C14_persist_store cfg ops st i d e hq hl hend) (by omega)

example : (request exCfg exSt (.id 1) (.read :: [.write 1 9, .regenerate, .read, .delete])).2.reads.head?
    = some [(1, 7)] := by decide

/-! ### non-vacuity of the hypotheses used above and in `CpProofs.C14` -/

theorem exCfg_injective : ∀ a b, exCfg.gen a = exCfg.gen b → a = b := by
  intro a b h
  have h' : a + 1 = b + 1 := h
  omega

-- `C14_unknown_id_replaced`: an unknown id nobody can draw (the example source never yields 0)
example : has exSt.store 0 = false ∧ (∀ n, exCfg.gen n ≠ 0) ∧
    (request exCfg exSt (.id 0) [.read]).2.cookie = some 2 := by
  refine ⟨by decide, fun n h => ?_, by decide⟩
  have h' : n + 1 = 0 := h
  omega

-- `C14_delete_dead`: a live session, a handler that reads, writes and deletes; the request succeeds
example : has exSt.store 1 = true ∧ HOp.regenerate ∉ [HOp.read, .write 2 2] ∧
    (request exCfg exSt (.id 1) ([.read, .write 2 2] ++ [.delete])).2.status = .ok ∧
    lookup (request exCfg exSt (.id 1) ([.read, .write 2 2] ++ [.delete])).1.store 1 = none := by
  refine ⟨by decide, by simp, by decide, by decide⟩

-- `C14_regenerate_dead`: same, with regenerate in the middle and writes after it
example : has exSt.store 1 = true ∧ FutureNot exCfg exSt 1 ∧
    (request exCfg exSt (.id 1) ([.read] ++ .regenerate :: [.write 3 3, .read])).2
      = ⟨.ok, some 2, false, [[(1, 7)], [(3, 3), (1, 7)]]⟩ ∧
    lookup (request exCfg exSt (.id 1) ([.read] ++ .regenerate :: [.write 3 3, .read])).1.store 1 = none := by
  refine ⟨by decide, ?_, by decide, by decide⟩
  exact futureNot_of_drawn exCfg exCfg_injective exSt 0 (by decide)

-- `C14_no_fixation_history`: after a history, a stale cookie gets an id never drawn before
example : (request exCfg (runSt exCfg {} (.req .none [.write 1 7] :: exOps)) (.id 2) [.read]).2.cookie = some 5 := by
  decide

end CpProofs.C14
