import CpModel.Proto
import CpModel.Auth
import CpModel.AuthPrims
/-!
  Driver for C19 (HTTP authentication).  One case per line, fields separated by one space.
  TEXT = decimal code points joined by `.` (`-` = empty text), OPT = `N` | TEXT,
  PAIRS = `_` | `TEXT~TEXT,…`, CODEC = utf8 | latin1 | ascii.

    basic  CHARSETNAME:TEXT CODEC REALM:TEXT STORE:PAIRS HDR:OPT NFC:PAIRS
    digest CHARSETNAME:TEXT CODEC REALM:TEXT KEY:TEXT plain|ha1|htdigest STORE:PAIRS|TRIPLES METHOD:TEXT NOW:int HDR:OPT
        → `grant TEXT` | `401 TEXT` | `400` | `500 ValueError|IndexError|TypeError`
    seen RAW:TEXT DEC:`E`|TEXT   (Request.process_headers on one value; DEC = what the RFC 2047 decoder returns / raises)
        → `ok TEXT` | `400`
    wwwauth CHARSETNAME:TEXT REALM:TEXT KEY:TEXT ALG:TEXT QOP:TEXT NOW:int STALE:0|1 → `ok TEXT` | `ValueError`
    ctor CHARSETNAME:TEXT CODEC HDR:TEXT → `ok` | `ValueError` | `IndexError`      (HttpDigestAuthorization(hdr, …))
  primitive cross-checks:
    md5 HEX → HEX      b64 TEXT → `ok HEX` | `err`      utf8 HEX → `ok TEXT` | `err`     int TEXT → `N` | int
    strip|upper|lower TEXT → TEXT      parse TEXT → `ok PAIRS` | `ValueError` | `IndexError`
-/
open CpModel CpModel.Auth CpModel.AuthPrims

namespace Drv.C19

def parsePairs (s : String) : Option (List (Str × Str)) :=
  if s == "_" then some [] else
  (s.splitOn ",").mapM fun p =>
    match p.splitOn "~" with
    | [a, b] => do pure (← Proto.untext? a, ← Proto.untext? b)
    | _ => none

def parseTriples (s : String) : Option (List (Str × Str × Str)) :=
  if s == "_" then some [] else
  (s.splitOn ",").mapM fun p =>
    match p.splitOn "~" with
    | [a, b, c] => do pure (← Proto.untext? a, ← Proto.untext? b, ← Proto.untext? c)
    | _ => none

def showPairs (l : List (Str × Str)) : String :=
  if l.isEmpty then "_" else ",".intercalate (l.map fun (a, b) => Proto.text a ++ "~" ++ Proto.text b)

def parseOpt (s : String) : Option (Option Str) :=
  if s == "N" then some none else (Proto.untext? s).map some

def parseCodec (s : String) : Option (Bytes → Option Str) :=
  if s == "utf8" then some utf8Decode
  else if s == "latin1" then some latin1DecodeSome
  else if s == "ascii" then some asciiDecode
  else none

def nfcOf (tbl : List (Str × Str)) (s : Str) : Str := (dictGet s tbl).getD s

def showExc : Exc → String
  | .valueError => "ValueError" | .indexError => "IndexError" | .typeError => "TypeError"

def showOutcome : Outcome → String
  | .grant u => "grant " ++ Proto.text u
  | .unauthorized c => "401 " ++ Proto.text c
  | .badRequest => "400"
  | .error e => "500 " ++ showExc e

def step (line : String) : String :=
  match Proto.fields line with
  | ["basic", cn, codec, realm, store, hdr, nfc] =>
    match Proto.untext? cn, parseCodec codec, Proto.untext? realm, parsePairs store, parseOpt hdr, parsePairs nfc with
    | some cn, some dec, some realm, some store, some hdr, some nfc =>
      let P : Prims := { H := md5Hex, b64decode := b64decode, decode := dec, nfc := nfcOf nfc }
      showOutcome (basicAuth P { realm := realm, store := store, acceptCharset := cn } hdr)
    | _, _, _, _, _, _ => "bad-op"
  | ["digest", cn, codec, realm, key, kind, store, method, now, hdr] =>
    let st? : Option Store :=
      if kind == "plain" then (parsePairs store).map .plain
      else if kind == "ha1" then (parsePairs store).map .ha1
      else if kind == "htdigest" then (parseTriples store).map .htdigest
      else none
    match Proto.untext? cn, parseCodec codec, Proto.untext? realm, Proto.untext? key, st?,
          Proto.untext? method, now.toInt?, parseOpt hdr with
    | some cn, some dec, some realm, some key, some st, some method, some now, some hdr =>
      let P : Prims := { H := md5Hex, b64decode := b64decode, decode := dec, nfc := id }
      showOutcome (digestAuth P { realm := realm, key := key, store := st, acceptCharset := cn } method now hdr)
    | _, _, _, _, _, _, _, _ => "bad-op"
  | ["seen", raw, dec] =>
    match Proto.untext? raw, (if dec == "E" then some none else (Proto.untext? dec).map some) with
    | some raw, some dec =>
      match processHeader (fun _ => dec) raw with
      | some h => "ok " ++ Proto.text h
      | none => "400"
    | _, _ => "bad-op"
  | ["wwwauth", cn, realm, key, alg, qop, now, stale] =>
    match Proto.untext? cn, Proto.untext? realm, Proto.untext? key, Proto.untext? alg, Proto.untext? qop, now.toInt? with
    | some cn, some realm, some key, some alg, some qop, some now =>
      let P : Prims := { H := md5Hex, b64decode := b64decode, decode := utf8Decode, nfc := id }
      match wwwAuthenticate P { realm := realm, key := key, store := .plain [], acceptCharset := cn } alg qop now
          (stale == "1") with
      | .ok c => "ok " ++ Proto.text c
      | .error e => showExc e
    | _, _, _, _, _, _ => "bad-op"
  | ["ctor", cn, codec, hdr] =>
    match Proto.untext? cn, parseCodec codec, Proto.untext? hdr with
    | some _, some dec, some hdr =>
      let P : Prims := { H := md5Hex, b64decode := b64decode, decode := dec, nfc := id }
      match parseAuth P hdr with
      | .ok _ => "ok"
      | .error e => showExc e
    | _, _, _ => "bad-op"
  | ["md5", h] =>
    match Proto.unhex? h with
    | some b => Proto.hex (md5 b)
    | none => "bad-op"
  | ["b64", t] =>
    match Proto.untext? t with
    | some s => match b64decode s with
      | some b => "ok " ++ Proto.hex b
      | none => "err"
    | none => "bad-op"
  | ["b64enc", h] =>
    match Proto.unhex? h with
    | some b => Proto.text (b64encode b)
    | none => "bad-op"
  | ["utf8", h] =>
    match Proto.unhex? h with
    | some b => match utf8Decode b with
      | some s => "ok " ++ Proto.text s
      | none => "err"
    | none => "bad-op"
  | ["int", t] =>
    match Proto.untext? t with
    | some s => match pyInt s with
      | some n => toString n
      | none => "N"
    | none => "bad-op"
  | ["strip", t] => match Proto.untext? t with | some s => Proto.text (pyStrip s) | none => "bad-op"
  | ["upper", t] => match Proto.untext? t with | some s => Proto.text (pyUpper s) | none => "bad-op"
  | ["lower", t] => match Proto.untext? t with | some s => Proto.text (pyLower s) | none => "bad-op"
  | ["parse", t] =>
    match Proto.untext? t with
    | some s => match parseKeqvList (parseHttpList s) with
      | .ok d => "ok " ++ showPairs d
      | .error e => showExc e
    | none => "bad-op"
  | _ => "bad-op"

end Drv.C19

def main : IO Unit := CpModel.Proto.runDriver Drv.C19.step
