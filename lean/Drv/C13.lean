import CpModel.Proto
import CpModel.SessionLock
/-!
  Driver for C13.  One case per line.

    ram <orig|recheck> <cache> <tbl> <n> <sched>
        cache = N | <counter>:<exp>      tbl = 0|1 (lock object already in the table)
        n     = number of request threads to print
        sched = comma-separated actors:  <i> (request thread i) | S (sweeper) | K<d> (clock + d)
      -> one snapshot per step, joined by `|`:
         T=<lock id|->;H=<owner.count per lock object>;C=<-|counter:exp>;P=<pc per thread>;
         W=<sweeper pc><1|2>;L=<lost 0|1>;D=<1 when some thread is unfinished and none is enabled>
-/
open CpModel CpModel.SessionLock

namespace Drv.C13

def showActor : Actor → String
  | .req i => s!"r{i}"
  | .sweep => "S"
  | .tick d => s!"K{d}"

def showPc : Pc → String
  | .init => "init" | .setdef => "setdef" | .acq => "acq" | .chk => "chk" | .rel0 => "rel0"
  | .load => "load" | .write => "write" | .save => "save" | .lookup => "lookup" | .rel => "rel" | .done => "done"
  | .gone => "gone" | .crashed => "crashed"

def showSPc : SPc → String
  | .copy => "copy" | .del => "del" | .get => "get" | .try_ => "try" | .pop => "pop"
  | .rel => "rel" | .list => "list" | .chk => "chk" | .crashed => "crashed"

def joinOr (xs : List String) (sep : String := ",") : String :=
  if xs.isEmpty then "-" else sep.intercalate xs

def showLock (o : LockObj) : String :=
  match o.owner with
  | none => "-"
  | some a => s!"{showActor a}.{o.count}"

def snapshot (n : Nat) (s : St) : String :=
  let t := match s.table with | some l => toString l | none => "-"
  let h := joinOr ((List.range s.next).map fun l => showLock (s.heap l))
  let c := match s.cache with | some (d, e) => s!"{s.dicts d}:{e}" | none => "-"
  let p := joinOr ((List.range n).map fun i => showPc (s.thr i).pc)
  let unfinished := (List.range n).any fun i =>
    match (s.thr i).pc with | .done | .gone | .crashed => false | _ => true
  let anyEnabled := (List.range n).any fun i => enabled s (.req i)
  let d := if unfinished && !anyEnabled then "1" else "0"
  s!"T={t};H={h};C={c};P={p};W={showSPc s.sw.pc}{if s.sw.second then 2 else 1};L={if s.lost then 1 else 0};D={d}"

def parseActor (s : String) : Option Actor :=
  if s == "S" then some .sweep
  else if s.startsWith "K" then (s.drop 1).toString.toNat?.map .tick
  else s.toNat?.map .req

def parseCache (s : String) : Option (Option (Nat × Nat)) :=
  if s == "N" then some none else
  match s.splitOn ":" with
  | [a, b] => do pure (some (← a.toNat?, ← b.toNat?))
  | _ => none

def parseVariant (s : String) : Option Variant :=
  if s == "orig" then some .orig else if s == "recheck" then some .recheck else none

def stepRam (args : List String) : String :=
  match args with
  | [v, c, tbl, n, sched] =>
    match parseVariant v, parseCache c, tbl.toNat?, n.toNat?,
          (if sched == "-" then some [] else (sched.splitOn ",").mapM parseActor) with
    | some v, some c, some tbl, some n, some sched =>
      let s0 := init c (tbl != 0)
      joinOr ((trace v s0 sched).map (snapshot n)) "|"
    | _, _, _, _, _ => "bad-op"
  | _ => "bad-op"

def step (line : String) : String :=
  match Proto.fields line with
  | "ram" :: args => stepRam args
  | _ => "bad-op"

end Drv.C13

def main : IO Unit := CpModel.Proto.runDriver Drv.C13.step
