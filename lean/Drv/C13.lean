import CpModel.Proto
import CpModel.SessionLock
import CpModel.SessionReq
import CpModel.SessionFile
import Drv.C13N
/-!
  Driver for C13.  One case per line.

    ram <orig|recheck> <cache> <tbl> <n> <sched>
        cache = N | <counter>:<exp>      tbl = 0|1 (lock object already in the table)
        n     = number of request threads to print
        sched = comma-separated actors:  <i> (request thread i) | S (sweeper) | K<d> (clock + d)
      -> one snapshot per step, joined by `|`:
         T=<lock id|->;H=<owner.count per lock object>;C=<-|counter:exp>;P=<pc per thread>;
         W=<sweeper pc><1|2>;L=<lost 0|1>;D=<1 when some thread is unfinished and none is enabled>
-/
open CpModel CpModel.SessionLock

namespace Drv.C13

def showActor : Actor → String
  | .req i => s!"r{i}"
  | .sweep => "S"
  | .tick d => s!"K{d}"

def showPc : Pc → String
  | .init => "init" | .setdef => "setdef" | .acq => "acq" | .chk => "chk" | .rel0 => "rel0"
  | .load => "load" | .write => "write" | .save => "save" | .lookup => "lookup" | .rel => "rel" | .done => "done"
  | .gone => "gone" | .crashed => "crashed"

def showSPc : SPc → String
  | .copy => "copy" | .del => "del" | .get => "get" | .try_ => "try" | .pop => "pop"
  | .rel => "rel" | .list => "list" | .chk => "chk" | .crashed => "crashed"

def joinOr (xs : List String) (sep : String := ",") : String :=
  if xs.isEmpty then "-" else sep.intercalate xs

def showLock (o : LockObj) : String :=
  match o.owner with
  | none => "-"
  | some a => s!"{showActor a}.{o.count}"

def snapshot (n : Nat) (s : St) : String :=
  let t := match s.table with | some l => toString l | none => "-"
  let h := joinOr ((List.range s.next).map fun l => showLock (s.heap l))
  let c := match s.cache with | some (d, e) => s!"{s.dicts d}:{e}" | none => "-"
  let p := joinOr ((List.range n).map fun i => showPc (s.thr i).pc)
  let unfinished := (List.range n).any fun i =>
    match (s.thr i).pc with | .done | .gone | .crashed => false | _ => true
  let anyEnabled := (List.range n).any fun i => enabled s (.req i)
  let d := if unfinished && !anyEnabled then "1" else "0"
  s!"T={t};H={h};C={c};P={p};W={showSPc s.sw.pc}{if s.sw.second then 2 else 1};L={if s.lost then 1 else 0};D={d}"

def parseActor (s : String) : Option Actor :=
  if s == "S" then some .sweep
  else if s.startsWith "K" then (s.drop 1).toString.toNat?.map .tick
  else s.toNat?.map .req

def parseCache (s : String) : Option (Option (Nat × Nat)) :=
  if s == "N" then some none else
  match s.splitOn ":" with
  | [a, b] => do pure (some (← a.toNat?, ← b.toNat?))
  | _ => none

def parseVariant (s : String) : Option Variant :=
  if s == "orig" then some .orig else if s == "recheck" then some .recheck else none

def stepRam (args : List String) : String :=
  match args with
  | [v, c, tbl, n, sched] =>
    match parseVariant v, parseCache c, tbl.toNat?, n.toNat?,
          (if sched == "-" then some [] else (sched.splitOn ",").mapM parseActor) with
    | some v, some c, some tbl, some n, some sched =>
      let s0 := init c (tbl != 0)
      joinOr ((trace v s0 sched).map (snapshot n)) "|"
    | _, _, _, _, _ => "bad-op"
  | _ => "bad-op"

/-! ### request-level plans

    req <mode> <file> <acts|-> <out> <stream> <gen> <genTouch> <genRaise> <consume> <saveFails>
        <oerOut> <brb> <bh> <bf> <eer>
    hooks = - | prio:failsafe:out,…     -> `J=H:<locked>:<held>,B:…,E:… HELD=<sum over ids>` -/
open CpModel.SessionReq in
def parseOut (s : String) : Option Out :=
  if s == "ok" then some .ok else if s == "http" then some .http
  else if s == "redirect" then some .redirect else if s == "exc" then some .exc else none

open CpModel.SessionReq in
def parseMode (s : String) : Option Mode :=
  if s == "implicit" then some .implicit else if s == "early" then some .early
  else if s == "explicit" then some .explicit else none

open CpModel.SessionReq in
def parseAct (s : String) : Option Act :=
  if s == "touch" then some .touch else if s == "acquire" then some .acquire
  else if s == "release" then some .release else if s == "regen" then some .regen else none

def parseBool (s : String) : Option Bool :=
  if s == "1" then some true else if s == "0" then some false else none

open CpModel.SessionReq in
def parseHooks (s : String) : Option (List Hook) :=
  if s == "-" then some [] else
  (s.splitOn ",").mapM fun t =>
    match t.splitOn ":" with
    | [p, f, o] => do pure { prio := ← p.toNat?, failsafe := ← parseBool f, act := .user, out := ← parseOut o }
    | _ => none

open CpModel.SessionReq in
def stepReqLine (args : List String) : String :=
  match args with
  | [mode, file, acts, out, stream, gen, genTouch, genRaise, consume, saveFails, oer, brb, bh, bf, eer] =>
    let plan? : Option Plan := do
      pure { mode := ← parseMode mode, file := ← parseBool file,
             acts := ← (if acts == "-" then some [] else (acts.splitOn ",").mapM parseAct),
             out := ← parseOut out, stream := ← parseBool stream, gen := ← parseBool gen,
             genTouch := ← parseBool genTouch, genRaise := ← parseBool genRaise,
             consume := ← (if consume == "full" then some Consume.full
                           else if consume == "abandon" then some Consume.abandon else none),
             saveFails := ← parseBool saveFails, oerOut := ← parseOut oer,
             brb := ← parseHooks brb, bh := ← parseHooks bh, bf := ← parseHooks bf, eer := ← parseHooks eer }
    match plan? with
    | none => "bad-op"
    | some p =>
      let s := runRequest p
      let j := s.journal.map fun (c, l, h) => s!"{c}:{if l then 1 else 0}:{h}"
      let total := ((List.range (s.cur + 1)).map s.held).foldl (· + ·) 0
      s!"J={joinOr j} HELD={total}"
  | _ => "bad-op"

/-! ### file backend

    file <file> <n> <sched>     file = A (absent) | E (empty) | <counter>:<exp>
        sched tokens: <i> | S | K<d>
      -> per step `F=<holder|->;C=<A|E|v:exp>;P=<pcs>;W=<sweeper pc>;L=<lost>;D=<deadlock>` joined by `|` -/
namespace FileDrv

def showActor : SessionFile.Actor → String
  | .req i => s!"r{i}" | .sweep => "S" | .tick d => s!"K{d}" | .expire i => s!"X{i}" | .fault k => s!"F{k}"

def showPc : SessionFile.Pc → String
  | .init => "init" | .gex => "gex" | .acq => "acq" | .openr => "openr" | .load => "load" | .trunc => "trunc"
  | .dump => "dump" | .rel => "rel" | .done => "done" | .gone => "gone" | .failed => "failed"
  | .del => "del" | .rdel => "rdel" | .rrel => "rrel"

def showSPc : SessionFile.SPc → String
  | .list => "list" | .acq => "acq" | .openr => "openr" | .load => "load" | .unlink => "unlink"
  | .rel => "rel" | .crashed => "crashed"

def showFile : SessionFile.FileC → String
  | .absent => "A" | .empty => "E" | .data v e => s!"{v}:{e}"

def snapshot (n : Nat) (s : SessionFile.St) : String :=
  let f := match s.flock with | some a => showActor a | none => "-"
  let p := joinOr ((List.range n).map fun i => showPc (s.thr i).pc)
  let unfinished := (List.range n).any fun i =>
    match (s.thr i).pc with | .done | .gone | .failed => false | _ => true
  let anyEnabled := (List.range n).any fun i => SessionFile.enabled s (SessionFile.Actor.req i)
  let d := if unfinished && !anyEnabled && !(SessionFile.enabled s SessionFile.Actor.sweep && s.flock == some SessionFile.Actor.sweep) then "1" else "0"
  s!"F={f};C={showFile s.file};P={p};W={showSPc s.sw.pc};L={if s.lost then 1 else 0};D={d}"

def parseActor (s : String) : Option SessionFile.Actor :=
  if s == "S" then some SessionFile.Actor.sweep
  else if s.startsWith "K" then (s.drop 1).toString.toNat?.map SessionFile.Actor.tick
  else if s.startsWith "X" then (s.drop 1).toString.toNat?.map SessionFile.Actor.expire
  else s.toNat?.map SessionFile.Actor.req

def parseFile (s : String) : Option SessionFile.FileC :=
  if s == "A" then some SessionFile.FileC.absent else if s == "E" then some SessionFile.FileC.empty else
  match s.splitOn ":" with
  | [a, b] => do pure (SessionFile.FileC.data (← a.toNat?) (← b.toNat?))
  | _ => none

def stepLine (args : List String) : String :=
  match args with
  | [f, n, sched] =>
    match parseFile f, n.toNat?, (if sched == "-" then some [] else (sched.splitOn ",").mapM parseActor) with
    | some f, some n, some sched => joinOr ((SessionFile.trace (SessionFile.init f) sched).map (snapshot n)) "|"
    | _, _, _ => "bad-op"
  | _ => "bad-op"

end FileDrv


def step (line : String) : String :=
  match Proto.fields line with
  | "ram" :: args => stepRam args
  | "ramN" :: args => Drv.C13N.stepLine args
  | "fileT" :: args => Drv.C13F.stepLine args
  | "file" :: args => FileDrv.stepLine args
  | "req" :: args => stepReqLine args
  | _ => "bad-op"

end Drv.C13

def main : IO Unit := CpModel.Proto.runDriver Drv.C13.step
