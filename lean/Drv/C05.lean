import CpModel.Proto
import CpModel.Reader
import CpModel.ReaderSink
import CpModel.ReaderProcess
/-!
  Driver for C05 (SizedReader).  One case per line, seven space-separated fields:

    LENGTH MAXBYTES BUFSIZE FAILAT BODYHEX FRAG OPS

  LENGTH, MAXBYTES, FAILAT = `N` (None) or a decimal; FAILAT may also be `t<k>.<k>…`: a plan of TRANSIENT
  faults of the stream (`runF`; the aborted operation prints like a 413); BODYHEX = hex (`-` empty);
  FRAG = `-` or comma-separated decimals (the i-th fp.read returns at most FRAG[i]+1 bytes);
  OPS = `-` or comma-separated `read | read:N | readline | readline:N | readlines | readlines:N | next`
  and the sink / iteration operations of `CpModel.ReaderSink`: `readfp | readfp:N` (`read(N, fp_out)`),
  `rif` (`read_into_file`), `iter` (`for line in body`).

  Output: `<out>,<out>,… off=<n> br=<n> done=<0|1> buf=<n>` with
  out = `b:<hex>` | `l:<hex>/<hex>/…` | `stop` | `e413` | `fuel` | `w:<hex>` (sink content after a
  successful sink operation) | `y:<hex>/<hex>/…` (lines yielded) | `e413+<hex>` (413, and what the
  sink received / the iterator yielded before it).

  Lines that start with a keyword exercise `CpModel.ReaderProcess` (text fields: decimal code points joined by `.`,
  `-` = empty, `N` = None):

    len CLEN TE                              → `N` | `<int>`                        (`Entity.__init__`)
    dec LEVELS METHOD CLEN TE TRAILER CTYPE  → `skip` | `e411` | `wrap len= mb= bs= tr= key= fn=`
        LEVELS = `-` or levels joined by `/`, each `_` or entries joined by `,`: `prb=T|F`, `mwb=<text>|<text>…`,
        `mb=N|<n>`, `bs=<n>`, `len=N|<int>`; the processor table is `Gen.C05.requestBodyProcessors`
    trail ONCE HAST HASM MAXSIZE FAILAT NFIN LINES → `<ok|e413|malformed|other> read=<0|1> tr=<k>:<v>;…|N left=<n>`
        LINES = `-` or hex lines joined by `,` (what follows the body on the connection)
    srv INDEX ADAPTERS                       → `body=<n> hdr=<n>` limits of the wsgi server of adapter INDEX
    trun LENGTH BUFSIZE BODYHEX FRAG OPS ONCE HAST HASM MAXSIZE FAILAT LINES
                                             → `<out>,… T=<…as trail…>` (`te:<kind>` = aborted by the trailer)
-/
open CpModel CpModel.Reader CpModel.ReaderProcess

namespace Drv.C05

def parseNats (s : String) : Option (List Nat) :=
  if s == "-" then some [] else (s.splitOn ",").mapM (·.toNat?)

def parseOp (s : String) : Option OpX :=
  match s.splitOn ":" with
  | ["read"] => some (.base (.read none))
  | ["read", n] => n.toNat?.map fun k => .base (.read (some k))
  | ["readline"] => some (.base (.readline none))
  | ["readline", n] => n.toNat?.map fun k => .base (.readline (some k))
  | ["readlines"] => some (.base (.readlines none))
  | ["readlines", n] => n.toNat?.map fun k => .base (.readlines (some k))
  | ["next"] => some (.base .next)
  | ["readfp"] => some (.readInto none)
  | ["readfp", n] => n.toNat?.map fun k => .readInto (some k)
  | ["rif"] => some .intoFile
  | ["iter"] => some .iter
  | _ => none

def parseOps (s : String) : Option (List OpX) :=
  if s == "-" then some [] else (s.splitOn ",").mapM parseOp

def showOut : Out → String
  | .bytes b => "b:" ++ Proto.hex b
  | .lines ls => "l:" ++ "/".intercalate (ls.map Proto.hex)
  | .stop => "stop"
  | .err413 => "e413"
  | .fuel => "fuel"

def showOutX : OutX → String
  | .base o => showOut o
  | .wrote (.ok _) w => "w:" ++ Proto.hex w
  | .wrote .err413 w => "e413+" ++ Proto.hex w
  | .wrote .fuel _ => "fuel"
  | .yielded (.ok _) ls => "y:" ++ "/".intercalate (ls.map Proto.hex)
  | .yielded .err413 ls => "e413+" ++ Proto.hex ls.flatten
  | .yielded .fuel _ => "fuel"

def parsePlan (s : String) : Option (List Nat) :=
  match s.toList with
  | 't' :: rest => ((String.ofList rest).splitOn ".").mapM (·.toNat?)
  | _ => none

def stepFaults (l m b fa body frag ops : String) : Option String :=
  match Proto.optNat? l, Proto.optNat? m, b.toNat?, parsePlan fa, Proto.unhex? body, parseNats frag, parseOps ops with
  | some l, some m, some b, some plan, some body, some frag, some ops =>
    let cfg : Cfg := { length := l, maxbytes := m, bufsize := b }
    let (outs, s) := runF cfg (initF body frag plan).1 (initF body frag plan).2 ops
    let o := if outs.isEmpty then "-" else ",".intercalate (outs.map showOutX)
    some s!"{o} off={s.off} br={s.bytesRead} done={if s.done then 1 else 0} buf={s.buffer.length}"
  | _, _, _, _, _, _, _ => none

def step (line : String) : String :=
  match Proto.fields line with
  | [l, m, b, fa, body, frag, ops] =>
    if fa.startsWith "t" then (stepFaults l m b fa body frag ops).getD "bad-op" else
    match Proto.optNat? l, Proto.optNat? m, b.toNat?, Proto.optNat? fa, Proto.unhex? body,
          parseNats frag, parseOps ops with
    | some l, some m, some b, some fa, some body, some frag, some ops =>
      let cfg : Cfg := { length := l, maxbytes := m, bufsize := b }
      let (outs, s) := runX cfg (init body frag fa) ops
      let o := if outs.isEmpty then "-" else ",".intercalate (outs.map showOutX)
      s!"{o} off={s.off} br={s.bytesRead} done={if s.done then 1 else 0} buf={s.buffer.length}"
    | _, _, _, _, _, _, _ => "bad-op"
  | _ => "bad-op"

/-! ### ReaderProcess -/

def optText? (s : String) : Option (Option Text) :=
  if s == "N" then some none else (Proto.untext? s).map some

def parseInt? (s : String) : Option Int :=
  match s.toList with
  | '-' :: ds => (String.ofList ds).toNat?.map fun n => - Int.ofNat n
  | _ => s.toNat?.map Int.ofNat

def parseEntry (e : String) : Option (Text × CfgVal) :=
  match e.splitOn "=" with
  | ["prb", "T"] => some (K_PRB, .bool true)
  | ["prb", "F"] => some (K_PRB, .bool false)
  | ["mwb", v] => ((v.splitOn "|").filter (· ≠ "")).mapM Proto.untext? |>.map fun l => (K_MWB, .strs l)
  | ["mb", "N"] => some (K_MAXBYTES, .none_)
  | ["mb", n] => n.toNat?.map fun k => (K_MAXBYTES, .nat k)
  | ["bs", n] => n.toNat?.map fun k => (K_BUFSIZE, .nat k)
  | ["len", "N"] => some (K_LENGTH, .none_)
  | ["len", n] => (parseInt? n).map fun k => (K_LENGTH, .int k)
  | _ => none

def parseLevels (s : String) : Option (List (List (Text × CfgVal))) :=
  if s == "-" then some [] else
  (s.splitOn "/").mapM fun l => if l == "_" then some [] else (l.splitOn ",").mapM parseEntry

def showOptInt : Option Int → String
  | none => "N"
  | some i => toString i

def showDecision : Decision → String
  | .skipped => "skip"
  | .err411 => "e411"
  | .wrapped len mb bs tr key fn =>
    s!"wrap len={showOptInt len} mb={Proto.showOptNat mb} bs={bs} tr={if tr then 1 else 0} " ++
    s!"key={match key with | none => "N" | some k => Proto.text k} fn={Proto.text fn}"

def parseBool? (s : String) : Option Bool :=
  if s == "1" then some true else if s == "0" then some false else none

def parseLines (s : String) : Option (List Bytes) :=
  if s == "-" then some [] else (s.splitOn ",").mapM Proto.unhex?

def showTErr : TErr → String
  | .err413 => "e413" | .malformed => "malformed" | .other => "other"

def showTr : Option Tr → String
  | none => "N"
  | some [] => "-"
  | some tr => ";".intercalate (tr.map fun (k, v) => Proto.hex k ++ ":" ++ Proto.hex v)

def showT (e : Option TErr) (t : TState) : String :=
  s!"{match e with | none => "ok" | some x => showTErr x} read={if t.read then 1 else 0} " ++
  s!"tr={showTr t.trailers} left={t.tail.length}"

def showOutT : OutT → String
  | .op o => showOutX o
  | .trailerErr e => "te:" ++ showTErr e

def stepProc (fs : List String) : Option String :=
  match fs with
  | ["len", c, t] =>
    match optText? c, optText? t with
    | some c, some t => some (showOptInt (entityLength c t))
    | _, _ => none
  | ["dec", lv, m, c, t, tr, ct] =>
    match parseLevels lv, Proto.untext? m, optText? c, optText? t, parseBool? tr, optText? ct with
    | some lv, some m, some c, some t, some tr, some ct =>
      some (showDecision (decision Gen.C05.requestBodyProcessors (effective lv)
        { method := m, clen := c, te := t, trailer := tr, ctype := ct }))
    | _, _, _, _, _, _ => none
  | ["srv", idx, ads] =>
    -- ADAPTERS = `<body>/<hdr>` joined by `,`; each `D` (never configured), `N` (None) or a decimal
    let cell (c : String) : Option (Option (Option Nat)) :=
      if c == "D" then some none else if c == "N" then some (some none) else c.toNat?.map fun n => some (some n)
    let parsed := (ads.splitOn ",").mapM fun a =>
      match a.splitOn "/" with
      | [b, h] => match cell b, cell h with
        | some b, some h => some ({ body := b, header := h } : Adapter)
        | _, _ => none
      | _ => none
    match idx.toNat?, parsed with
    | some i, some as =>
      some (match wsgiLimits as i with | some (b, h) => s!"body={b} hdr={h}" | none => "none")
    | _, _ => none
  | ["trail", once, ht, hm, ms, fa, n, ls] =>
    match parseBool? once, parseBool? ht, parseBool? hm, parseBool? ms, Proto.optNat? fa, n.toNat?, parseLines ls with
    | some once, some ht, some hm, some ms, some fa, some n, some ls =>
      let t0 : TState := { hasTrailers := ht, hasMethod := hm, read := false, trailers := none, tail := ls,
                           failAt := fa, maxSize := ms }
      let (e, t) := finishN Gen.C05.commaSeparatedHeaders once n t0
      some (showT e t)
    | _, _, _, _, _, _, _ => none
  | ["trun", l, b, body, frag, ops, once, ht, hm, ms, fa, ls] =>
    match Proto.optNat? l, b.toNat?, Proto.unhex? body, parseNats frag, parseOps ops, parseBool? once, parseBool? ht,
          parseBool? hm, parseBool? ms, Proto.optNat? fa, parseLines ls with
    | some l, some b, some body, some frag, some ops, some once, some ht, some hm, some ms, some fa, some ls =>
      let cfg : Cfg := { length := l, maxbytes := none, bufsize := b }
      let t0 : TState := { hasTrailers := ht, hasMethod := hm, read := false, trailers := none, tail := ls,
                           failAt := fa, maxSize := ms }
      let (outs, s, t) := runT cfg Gen.C05.commaSeparatedHeaders once (init body frag none) t0 ops
      let o := if outs.isEmpty then "-" else ",".intercalate (outs.map showOutT)
      some s!"{o} off={s.off} T={showT none t}"
    | _, _, _, _, _, _, _, _, _, _, _ => none
  | _ => none

def stepAll (line : String) : String :=
  match Proto.fields line with
  | kw :: rest =>
    if kw == "len" || kw == "dec" || kw == "trail" || kw == "trun" || kw == "srv" then
      (stepProc (kw :: rest)).getD "bad-op"
    else step line
  | [] => "bad-op"

end Drv.C05

def main : IO Unit := CpModel.Proto.runDriver Drv.C05.stepAll
