import CpModel.Proto
import CpModel.Reader
/-!
  Driver for C05 (SizedReader).  One case per line, seven space-separated fields:

    LENGTH MAXBYTES BUFSIZE FAILAT BODYHEX FRAG OPS

  LENGTH, MAXBYTES, FAILAT = `N` (None) or a decimal; BODYHEX = hex (`-` empty);
  FRAG = `-` or comma-separated decimals (the i-th fp.read returns at most FRAG[i]+1 bytes);
  OPS = `-` or comma-separated `read | read:N | readline | readline:N | readlines | readlines:N | next`.

  Output: `<out>,<out>,… off=<n> br=<n> done=<0|1> buf=<n>` with
  out = `b:<hex>` | `l:<hex>/<hex>/…` | `stop` | `e413` | `fuel`.
-/
open CpModel CpModel.Reader

namespace Drv.C05

def parseNats (s : String) : Option (List Nat) :=
  if s == "-" then some [] else (s.splitOn ",").mapM (·.toNat?)

def parseOp (s : String) : Option Op :=
  match s.splitOn ":" with
  | ["read"] => some (.read none)
  | ["read", n] => n.toNat?.map fun k => .read (some k)
  | ["readline"] => some (.readline none)
  | ["readline", n] => n.toNat?.map fun k => .readline (some k)
  | ["readlines"] => some (.readlines none)
  | ["readlines", n] => n.toNat?.map fun k => .readlines (some k)
  | ["next"] => some .next
  | _ => none

def parseOps (s : String) : Option (List Op) :=
  if s == "-" then some [] else (s.splitOn ",").mapM parseOp

def showOut : Out → String
  | .bytes b => "b:" ++ Proto.hex b
  | .lines ls => "l:" ++ "/".intercalate (ls.map Proto.hex)
  | .stop => "stop"
  | .err413 => "e413"
  | .fuel => "fuel"

def step (line : String) : String :=
  match Proto.fields line with
  | [l, m, b, fa, body, frag, ops] =>
    match Proto.optNat? l, Proto.optNat? m, b.toNat?, Proto.optNat? fa, Proto.unhex? body,
          parseNats frag, parseOps ops with
    | some l, some m, some b, some fa, some body, some frag, some ops =>
      let cfg : Cfg := { length := l, maxbytes := m, bufsize := b }
      let (outs, s) := run cfg (init body frag fa) ops
      let o := if outs.isEmpty then "-" else ",".intercalate (outs.map showOut)
      s!"{o} off={s.off} br={s.bytesRead} done={if s.done then 1 else 0} buf={s.buffer.length}"
    | _, _, _, _, _, _, _ => "bad-op"
  | _ => "bad-op"

end Drv.C05

def main : IO Unit := CpModel.Proto.runDriver Drv.C05.step
