import CpModel.Proto
import CpModel.Reader
import CpModel.ReaderSink
/-!
  Driver for C05 (SizedReader).  One case per line, seven space-separated fields:

    LENGTH MAXBYTES BUFSIZE FAILAT BODYHEX FRAG OPS

  LENGTH, MAXBYTES, FAILAT = `N` (None) or a decimal; BODYHEX = hex (`-` empty);
  FRAG = `-` or comma-separated decimals (the i-th fp.read returns at most FRAG[i]+1 bytes);
  OPS = `-` or comma-separated `read | read:N | readline | readline:N | readlines | readlines:N | next`
  and the sink / iteration operations of `CpModel.ReaderSink`: `readfp | readfp:N` (`read(N, fp_out)`),
  `rif` (`read_into_file`), `iter` (`for line in body`).

  Output: `<out>,<out>,… off=<n> br=<n> done=<0|1> buf=<n>` with
  out = `b:<hex>` | `l:<hex>/<hex>/…` | `stop` | `e413` | `fuel` | `w:<hex>` (sink content after a
  successful sink operation) | `y:<hex>/<hex>/…` (lines yielded) | `e413+<hex>` (413, and what the
  sink received / the iterator yielded before it).
-/
open CpModel CpModel.Reader

namespace Drv.C05

def parseNats (s : String) : Option (List Nat) :=
  if s == "-" then some [] else (s.splitOn ",").mapM (·.toNat?)

def parseOp (s : String) : Option OpX :=
  match s.splitOn ":" with
  | ["read"] => some (.base (.read none))
  | ["read", n] => n.toNat?.map fun k => .base (.read (some k))
  | ["readline"] => some (.base (.readline none))
  | ["readline", n] => n.toNat?.map fun k => .base (.readline (some k))
  | ["readlines"] => some (.base (.readlines none))
  | ["readlines", n] => n.toNat?.map fun k => .base (.readlines (some k))
  | ["next"] => some (.base .next)
  | ["readfp"] => some (.readInto none)
  | ["readfp", n] => n.toNat?.map fun k => .readInto (some k)
  | ["rif"] => some .intoFile
  | ["iter"] => some .iter
  | _ => none

def parseOps (s : String) : Option (List OpX) :=
  if s == "-" then some [] else (s.splitOn ",").mapM parseOp

def showOut : Out → String
  | .bytes b => "b:" ++ Proto.hex b
  | .lines ls => "l:" ++ "/".intercalate (ls.map Proto.hex)
  | .stop => "stop"
  | .err413 => "e413"
  | .fuel => "fuel"

def showOutX : OutX → String
  | .base o => showOut o
  | .wrote (.ok _) w => "w:" ++ Proto.hex w
  | .wrote .err413 w => "e413+" ++ Proto.hex w
  | .wrote .fuel _ => "fuel"
  | .yielded (.ok _) ls => "y:" ++ "/".intercalate (ls.map Proto.hex)
  | .yielded .err413 ls => "e413+" ++ Proto.hex ls.flatten
  | .yielded .fuel _ => "fuel"

def step (line : String) : String :=
  match Proto.fields line with
  | [l, m, b, fa, body, frag, ops] =>
    match Proto.optNat? l, Proto.optNat? m, b.toNat?, Proto.optNat? fa, Proto.unhex? body,
          parseNats frag, parseOps ops with
    | some l, some m, some b, some fa, some body, some frag, some ops =>
      let cfg : Cfg := { length := l, maxbytes := m, bufsize := b }
      let (outs, s) := runX cfg (init body frag fa) ops
      let o := if outs.isEmpty then "-" else ",".intercalate (outs.map showOutX)
      s!"{o} off={s.off} br={s.bytesRead} done={if s.done then 1 else 0} buf={s.buffer.length}"
    | _, _, _, _, _, _, _ => "bad-op"
  | _ => "bad-op"

end Drv.C05

def main : IO Unit := CpModel.Proto.runDriver Drv.C05.step
