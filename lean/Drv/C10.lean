import CpModel.Proto
import CpModel.Isolation
import CpModel.IsolationCfg
import CpModel.IsolationRelease
import CpModel.Gen.C10Tables
/-!
  Driver for C10 (request isolation).  One case per line, space-separated tokens, processed left to right:

    C:<classcell>:<items>          initial contents of a class-level cell
    U:<u>:<slot>:<items>           entries the site's configuration for URL `u` puts into attribute `slot`
    B:<t>:<u>                      thread t: a request for URL u is built and loaded
    M:<t>:<slot|serving>:<a|d|c>:<item>   thread t mutates (add / del / clear) what it reaches
    D:<t>                          thread t releases its request
    O:<t>                          observe thread t  ->  `t<t>[slot=items@cell;…;S=items]`
    K                              observe all class-level cells -> `K[cell=items;…]` (non-empty ones)

  `<items>` = comma-separated naturals, `-` for none.  The construction table, default-object table and
  lifecycle facts are the generated ones (`CpModel.Gen.C10`).  Output: the observations joined by spaces.

  Lines starting with `CFG` drive the config model (`CpModel.IsolationCfg`, merge table = `Gen.C10.cfgTable`):

    I:<name>                       the name `index`
    G:<k=v,…>                      cherrypy.config
    P:<cell>:<k=v,…>  S:<cell>:<k=v,…>   contents of a `_cp_config` cell / a section cell
    A:<app>:<node>                 application `app` is rooted at `node`
    N:<app>:<node>:<cfg cell|->:<exposed 0|1>:<default node|->
    E:<app>:<node>:<name>:<child>  getattr(node, name) is child
    X:<app>:<name.name…|->:<cell>  the application's config has a section for that path (`-` = `/`)
    Q:<app>:<name.name…|->         dispatch a request  ->  `q[k=v,…;own|shared]` (its effective config)
    W:<k>=<v>                      the request dispatched last writes request.config[k] = v
    H                              ->  `H[g:k=v,…;p<cell>:…;s<cell>:…]` all long-lived dicts

  `LOC D:<a=v,…> L:<t>:<rq>:<rs> C:<t> S:<t>:<a>:<v> G:<t>:<a> N:<t>` drives the `_Serving(_local)` model
  (`g=<v|none>` per G, `n=<attrs|->` per N); `REL <head|repaired|seeded> <pub> <close>` evaluates a transcribed
  release program under a fault plan (`cleared=…;closed=…;raised=…`).
-/
open CpModel CpModel.Isolation

namespace Drv.C10

def slotNames : List (String × Slot) :=
  [("reqObj", .reqObj), ("respObj", .respObj), ("bodyObj", .bodyObj), ("hooks", .hooks), ("hookLists", .hookLists),
   ("errorPage", .errorPage), ("namespaces", .namespaces), ("toolmaps", .toolmaps), ("toolmapTools", .toolmapTools),
   ("params", .params), ("headers", .headers), ("headerList", .headerList), ("cookie", .cookie), ("config", .config),
   ("uniqueId", .uniqueId), ("local", .local), ("remote", .remote),
   ("respHeaders", .respHeaders), ("respCookie", .respCookie), ("respBody", .respBody), ("processors", .processors),
   ("attemptCharsets", .attemptCharsets), ("bodyParams", .bodyParams), ("parts", .parts),
   ("bodyHeaders", .bodyHeaders), ("requestParams", .requestParams)]

def cellNames : List (String × ClassCell) :=
  [("reqHooks", .reqHooks), ("reqHookLists", .reqHookLists), ("reqErrorPage", .reqErrorPage),
   ("reqNamespaces", .reqNamespaces), ("reqToolmaps", .reqToolmaps), ("reqParams", .reqParams),
   ("reqHeaders", .reqHeaders), ("reqHeaderList", .reqHeaderList), ("reqCookie", .reqCookie),
   ("reqLocal", .reqLocal), ("reqRemote", .reqRemote),
   ("respHeaders", .respHeaders), ("respCookie", .respCookie), ("respHeaderList", .respHeaderList),
   ("entProcessors", .entProcessors), ("entAttemptCharsets", .entAttemptCharsets),
   ("partAttemptCharsets", .partAttemptCharsets), ("appConfig", .appConfig), ("appNamespaces", .appNamespaces),
   ("appToolboxes", .appToolboxes), ("wsgiPipeline", .wsgiPipeline), ("wsgiConfig", .wsgiConfig),
   ("hookKwargs", .hookKwargs), ("globalConfig", .globalConfig), ("defReq", .defReq), ("defResp", .defResp),
   ("defReqErrorPage", .defReqErrorPage), ("defReqNamespaces", .defReqNamespaces),
   ("defRespHeaders", .defRespHeaders), ("defRespCookie", .defRespCookie), ("defRespBody", .defRespBody),
   ("other", .other)]

def slotName (s : Slot) : String := ((slotNames.find? fun e => e.2 = s).map (·.1)).getD "?"
def cellName (c : ClassCell) : String := ((cellNames.find? fun e => e.2 = c).map (·.1)).getD "?"
def parseSlot (n : String) : Option Slot := (slotNames.find? fun e => e.1 == n).map (·.2)
def parseCell (n : String) : Option ClassCell := (cellNames.find? fun e => e.1 == n).map (·.2)

def parseItems (s : String) : Option (List Nat) :=
  if s == "-" then some [] else (s.splitOn ",").mapM (·.toNat?)

def showItems (xs : List Nat) : String :=
  if xs.isEmpty then "-" else ",".intercalate (xs.map toString)

structure Acc where
  conf : List (Nat × Slot × List Nat) := []
  st : State := State.init (fun _ => [])
  out : List String := []

def confOf (entries : List (Nat × Slot × List Nat)) : Conf := fun u s =>
  ((entries.find? fun e => e.1 = u ∧ e.2.1 = s).map (·.2.2)).getD []

def params (a : Acc) : Params :=
  { tbl := Gen.C10.requestTable, dflt := Gen.C10.defaultTable, lc := Gen.C10.lifecycle, conf := confOf a.conf }

def showAddr (own : Option Nat) : Option Addr → String
  | none => "none"
  | some (.cls c) => "cls:" ++ cellName c
  | some (.obj r s) => (if own = some r then "own:" else "foreign:") ++ slotName s

def observeThread (a : Acc) (t : Nat) : String :=
  let p := params a
  let own := a.st.serving (key p.lc t)
  let parts := Slot.all.map fun s =>
    let tg := target p a.st t s
    slotName s ++ "=" ++ (match observe p a.st t s with | some xs => showItems xs | none => "none")
      ++ "@" ++ showAddr own tg
  s!"t{t}[" ++ ";".intercalate parts ++ ";S=" ++ showItems (a.st.sattrs (key p.lc t))
    ++ ";L=" ++ (if own.isSome then "1" else "0") ++ "]"

def observeClass (a : Acc) : String :=
  let parts := cellNames.filterMap fun (n, c) =>
    let xs := a.st.heap (.cls c)
    if xs.isEmpty then none else some (n ++ "=" ++ showItems xs)
  "K[" ++ ";".intercalate parts ++ "]"

def parseOp (k item : String) : Option Op :=
  if k == "a" then item.toNat?.map .add
  else if k == "d" then item.toNat?.map .del
  else if k == "c" then some .clear
  else none

def feed (a : Acc) (tok : String) : Option Acc :=
  match tok.splitOn ":" with
  | ["C", cell, items] => do
    let c ← parseCell cell; let xs ← parseItems items
    pure { a with st := { a.st with heap := hupd a.st.heap (.cls c) xs } }
  | ["U", u, slot, items] => do
    let u ← u.toNat?; let s ← parseSlot slot; let xs ← parseItems items
    pure { a with conf := (u, s, xs) :: a.conf }
  | ["B", t, u] => do
    let t ← t.toNat?; let u ← u.toNat?
    pure { a with st := step (params a) a.st (.begin t u) }
  | ["M", t, tg, k, item] => do
    let t ← t.toNat?; let op ← parseOp k item
    let tg ← if tg == "serving" then some Target.serving else (parseSlot tg).map Target.slot
    pure { a with st := step (params a) a.st (.mutate t tg op) }
  | ["D", t] => do
    let t ← t.toNat?
    pure { a with st := step (params a) a.st (.done t) }
  | ["O", t] => do
    let t ← t.toNat?
    pure { a with out := observeThread a t :: a.out }
  | ["K"] => pure { a with out := observeClass a :: a.out }
  | _ => none

def stepIso (toks : List String) : String :=
  match toks.foldlM feed ({} : Acc) with
  | none => "bad-op"
  | some a => if a.out.isEmpty then "-" else " ".intercalate a.out.reverse

/-! ### config model -/
structure CAcc where
  index : Nat := 0
  cells : List IsolationCfg.Cell := []
  roots : List (Nat × Nat) := []
  infos : List ((Nat × Nat) × IsolationCfg.NodeInfo) := []
  edges : List ((Nat × Nat × Nat) × Nat) := []
  sects : List ((Nat × List Nat) × Nat) := []
  keys : List Nat := []
  cur : Option (IsolationCfg.Heap × IsolationCfg.Ref) := none
  h : IsolationCfg.Heap := fun _ => IsolationCfg.Dict.empty
  out : List String := []

namespace Cfg
open CpModel.IsolationCfg

def parseKV (s : String) : Option (List (Nat × Nat)) :=
  if s == "-" then some [] else
  (s.splitOn ",").mapM fun kv =>
    match kv.splitOn "=" with
    | [k, v] => do pure ((← k.toNat?), (← v.toNat?))
    | _ => none

def parseNames (s : String) : Option (List Nat) :=
  if s == "-" then some [] else (s.splitOn ".").mapM (·.toNat?)

def parseOpt (s : String) : Option (Option Nat) :=
  if s == "-" then some none else s.toNat?.map some

def addCell (a : CAcc) (c : Cell) (kvs : List (Nat × Nat)) : CAcc :=
  { a with cells := c :: a.cells, h := hset a.h c (Dict.ofList kvs.reverse) }

def siteOf (a : CAcc) (app : Nat) : Site where
  root := ((a.roots.find? fun e => e.1 = app).map (·.2)).getD 0
  index := a.index
  info := fun n => ((a.infos.find? fun e => e.1 = (app, n)).map (·.2)).getD ⟨none, false, none⟩
  child := fun n name => (a.edges.find? fun e => e.1 = (app, n, name)).map (·.2)
  sect := fun p => (a.sects.find? fun e => e.1 = (app, p)).map (·.2)

def showDict (keys : List Nat) (d : Dict) : String :=
  let parts := keys.filterMap fun k => (d k).map fun v => s!"{k}={v}"
  if parts.isEmpty then "-" else ",".intercalate parts

def insertSorted (k : Nat) : List Nat → List Nat
  | [] => [k]
  | x :: xs => if k < x then k :: x :: xs else if k = x then x :: xs else x :: insertSorted k xs

def addKeys (a : CAcc) (kvs : List (Nat × Nat)) : CAcc :=
  { a with keys := kvs.foldl (fun ks kv => insertSorted kv.1 ks) a.keys }

def showCell : Cell → String
  | .glob => "g"
  | .cp i => s!"p{i}"
  | .sect i => s!"s{i}"

def feed (a : CAcc) (tok : String) : Option CAcc :=
  match tok.splitOn ":" with
  | ["I", n] => do pure { a with index := (← n.toNat?) }
  | ["G", kv] => do
    let kvs ← parseKV kv
    pure (addCell (addKeys a kvs) .glob kvs)
  | ["P", c, kv] => do
    let kvs ← parseKV kv
    pure (addCell (addKeys a kvs) (.cp (← c.toNat?)) kvs)
  | ["S", c, kv] => do
    let kvs ← parseKV kv
    pure (addCell (addKeys a kvs) (.sect (← c.toNat?)) kvs)
  | ["A", app, n] => do pure { a with roots := ((← app.toNat?), (← n.toNat?)) :: a.roots }
  | ["N", app, n, cfg, ex, d] => do
    let info : NodeInfo := { cfg := (← parseOpt cfg), exposed := ex == "1", dflt := (← parseOpt d) }
    pure { a with infos := (((← app.toNat?), (← n.toNat?)), info) :: a.infos }
  | ["E", app, n, name, c] => do
    pure { a with edges := (((← app.toNat?), (← n.toNat?), (← name.toNat?)), (← c.toNat?)) :: a.edges }
  | ["X", app, names, c] => do
    pure { a with sects := (((← app.toNat?), (← parseNames names)), (← c.toNat?)) :: a.sects }
  | ["Q", app, names] => do
    let site := siteOf a (← app.toNat?)
    let r := serve Gen.C10.cfgTable site a.h (← parseNames names)
    let o := "q[" ++ showDict a.keys (r.2.get r.1) ++ ";" ++ (if r.2.isOwn then "own" else "shared") ++ "]"
    pure { a with cur := some r, h := r.1, out := o :: a.out }
  | ["W", kv] => do
    let kvs ← parseKV kv
    match a.cur with
    | some (h, r) =>
      let w := cfgWrites h r kvs
      pure { addKeys a kvs with cur := some w, h := w.1 }
    | none => pure a
  | ["H"] =>
    let parts := a.cells.reverse.map fun c => showCell c ++ ":" ++ showDict a.keys (a.h c)
    pure { a with out := ("H[" ++ ";".intercalate parts ++ "]") :: a.out }
  | _ => none

def step (toks : List String) : String :=
  match toks.foldlM feed ({} : CAcc) with
  | none => "bad-op"
  | some a => if a.out.isEmpty then "-" else " ".intercalate a.out.reverse

end Cfg

/-! ### thread-local container, release programs -/
namespace Loc
open CpModel.IsolationRelease

structure LAcc where
  s : LServing := { dict := fun _ => [], dflt := fun _ => none }
  out : List String := []

def insertSorted (k : Nat) : List Nat → List Nat
  | [] => [k]
  | x :: xs => if k ≤ x then k :: x :: xs else x :: insertSorted k xs

def feed (a : LAcc) (tok : String) : Option LAcc :=
  match tok.splitOn ":" with
  | ["D", kv] => do
    let kvs ← Cfg.parseKV kv
    pure { a with s := { a.s with dflt := fun x => (kvs.find? fun e => e.1 = x).map (·.2) } }
  | ["L", t, rq, rs] => do pure { a with s := a.s.load (← t.toNat?) (← rq.toNat?) (← rs.toNat?) }
  | ["C", t] => do pure { a with s := a.s.clear (← t.toNat?) }
  | ["S", t, x, v] => do pure { a with s := a.s.setattr (← t.toNat?) (← x.toNat?) (← v.toNat?) }
  | ["G", t, x] => do
    let o := match a.s.getattr (← t.toNat?) (← x.toNat?) with
      | some v => s!"g={v}"
      | none => "g=none"
    pure { a with out := o :: a.out }
  | ["N", t] => do
    let ns := (a.s.names (← t.toNat?)).foldl (fun acc k => insertSorted k acc) []
    pure { a with out := ("n=" ++ showItems ns) :: a.out }
  | _ => none

def step (toks : List String) : String :=
  match toks.foldlM feed ({} : LAcc) with
  | none => "bad-op"
  | some a => if a.out.isEmpty then "-" else " ".intercalate a.out.reverse

def parseOut (s : String) : Option Out :=
  if s == "ok" then some .ok else if s == "exc" then some .exc else if s == "base" then some .base else none

def showOut : Out → String
  | .ok => "ok" | .exc => "exc" | .base => "base"

def rel (toks : List String) : String :=
  match toks with
  | [prog, a, b] =>
    let pr := if prog == "head" then some headProg else if prog == "repaired" then some repairedProg
              else if prog == "seeded" then some seededProg else none
    match pr, parseOut a, parseOut b with
    | some pr, some a, some b =>
      let o := behaviour pr ⟨a, b⟩
      s!"cleared={if o.cleared then 1 else 0};closed={if o.closed then 1 else 0};raised={showOut o.raised}"
    | _, _, _ => "bad-op"
  | _ => "bad-op"

end Loc

def step (line : String) : String :=
  match Proto.fields line with
  | "CFG" :: toks => Cfg.step toks
  | "LOC" :: toks => Loc.step toks
  | "REL" :: toks => Loc.rel toks
  | toks => stepIso toks

end Drv.C10

def main : IO Unit := CpModel.Proto.runDriver Drv.C10.step
