import CpModel.Proto
import CpModel.Isolation
import CpModel.Gen.C10Tables
/-!
  Driver for C10 (request isolation).  One case per line, space-separated tokens, processed left to right:

    C:<classcell>:<items>          initial contents of a class-level cell
    U:<u>:<slot>:<items>           entries the site's configuration for URL `u` puts into attribute `slot`
    B:<t>:<u>                      thread t: a request for URL u is built and loaded
    M:<t>:<slot|serving>:<a|d|c>:<item>   thread t mutates (add / del / clear) what it reaches
    D:<t>                          thread t releases its request
    O:<t>                          observe thread t  ->  `t<t>[slot=items@cell;…;S=items]`
    K                              observe all class-level cells -> `K[cell=items;…]` (non-empty ones)

  `<items>` = comma-separated naturals, `-` for none.  The construction table, default-object table and
  lifecycle facts are the generated ones (`CpModel.Gen.C10`).  Output: the observations joined by spaces.
-/
open CpModel CpModel.Isolation

namespace Drv.C10

def slotNames : List (String × Slot) :=
  [("reqObj", .reqObj), ("respObj", .respObj), ("bodyObj", .bodyObj), ("hooks", .hooks), ("hookLists", .hookLists),
   ("errorPage", .errorPage), ("namespaces", .namespaces), ("toolmaps", .toolmaps), ("toolmapTools", .toolmapTools),
   ("params", .params), ("headers", .headers), ("headerList", .headerList), ("cookie", .cookie), ("config", .config),
   ("uniqueId", .uniqueId), ("local", .local), ("remote", .remote),
   ("respHeaders", .respHeaders), ("respCookie", .respCookie), ("respBody", .respBody), ("processors", .processors),
   ("attemptCharsets", .attemptCharsets), ("bodyParams", .bodyParams), ("parts", .parts),
   ("bodyHeaders", .bodyHeaders), ("requestParams", .requestParams)]

def cellNames : List (String × ClassCell) :=
  [("reqHooks", .reqHooks), ("reqHookLists", .reqHookLists), ("reqErrorPage", .reqErrorPage),
   ("reqNamespaces", .reqNamespaces), ("reqToolmaps", .reqToolmaps), ("reqParams", .reqParams),
   ("reqHeaders", .reqHeaders), ("reqHeaderList", .reqHeaderList), ("reqCookie", .reqCookie),
   ("reqLocal", .reqLocal), ("reqRemote", .reqRemote),
   ("respHeaders", .respHeaders), ("respCookie", .respCookie), ("respHeaderList", .respHeaderList),
   ("entProcessors", .entProcessors), ("entAttemptCharsets", .entAttemptCharsets),
   ("partAttemptCharsets", .partAttemptCharsets), ("appConfig", .appConfig), ("appNamespaces", .appNamespaces),
   ("appToolboxes", .appToolboxes), ("wsgiPipeline", .wsgiPipeline), ("wsgiConfig", .wsgiConfig),
   ("hookKwargs", .hookKwargs), ("globalConfig", .globalConfig), ("defReq", .defReq), ("defResp", .defResp),
   ("defReqErrorPage", .defReqErrorPage), ("defReqNamespaces", .defReqNamespaces),
   ("defRespHeaders", .defRespHeaders), ("defRespCookie", .defRespCookie), ("defRespBody", .defRespBody),
   ("other", .other)]

def slotName (s : Slot) : String := ((slotNames.find? fun e => e.2 = s).map (·.1)).getD "?"
def cellName (c : ClassCell) : String := ((cellNames.find? fun e => e.2 = c).map (·.1)).getD "?"
def parseSlot (n : String) : Option Slot := (slotNames.find? fun e => e.1 == n).map (·.2)
def parseCell (n : String) : Option ClassCell := (cellNames.find? fun e => e.1 == n).map (·.2)

def parseItems (s : String) : Option (List Nat) :=
  if s == "-" then some [] else (s.splitOn ",").mapM (·.toNat?)

def showItems (xs : List Nat) : String :=
  if xs.isEmpty then "-" else ",".intercalate (xs.map toString)

structure Acc where
  conf : List (Nat × Slot × List Nat) := []
  st : State := State.init (fun _ => [])
  out : List String := []

def confOf (entries : List (Nat × Slot × List Nat)) : Conf := fun u s =>
  ((entries.find? fun e => e.1 = u ∧ e.2.1 = s).map (·.2.2)).getD []

def params (a : Acc) : Params :=
  { tbl := Gen.C10.requestTable, dflt := Gen.C10.defaultTable, lc := Gen.C10.lifecycle, conf := confOf a.conf }

def showAddr (own : Option Nat) : Option Addr → String
  | none => "none"
  | some (.cls c) => "cls:" ++ cellName c
  | some (.obj r s) => (if own = some r then "own:" else "foreign:") ++ slotName s

def observeThread (a : Acc) (t : Nat) : String :=
  let p := params a
  let own := a.st.serving (key p.lc t)
  let parts := Slot.all.map fun s =>
    let tg := target p a.st t s
    slotName s ++ "=" ++ (match observe p a.st t s with | some xs => showItems xs | none => "none")
      ++ "@" ++ showAddr own tg
  s!"t{t}[" ++ ";".intercalate parts ++ ";S=" ++ showItems (a.st.sattrs (key p.lc t))
    ++ ";L=" ++ (if own.isSome then "1" else "0") ++ "]"

def observeClass (a : Acc) : String :=
  let parts := cellNames.filterMap fun (n, c) =>
    let xs := a.st.heap (.cls c)
    if xs.isEmpty then none else some (n ++ "=" ++ showItems xs)
  "K[" ++ ";".intercalate parts ++ "]"

def parseOp (k item : String) : Option Op :=
  if k == "a" then item.toNat?.map .add
  else if k == "d" then item.toNat?.map .del
  else if k == "c" then some .clear
  else none

def feed (a : Acc) (tok : String) : Option Acc :=
  match tok.splitOn ":" with
  | ["C", cell, items] => do
    let c ← parseCell cell; let xs ← parseItems items
    pure { a with st := { a.st with heap := hupd a.st.heap (.cls c) xs } }
  | ["U", u, slot, items] => do
    let u ← u.toNat?; let s ← parseSlot slot; let xs ← parseItems items
    pure { a with conf := (u, s, xs) :: a.conf }
  | ["B", t, u] => do
    let t ← t.toNat?; let u ← u.toNat?
    pure { a with st := step (params a) a.st (.begin t u) }
  | ["M", t, tg, k, item] => do
    let t ← t.toNat?; let op ← parseOp k item
    let tg ← if tg == "serving" then some Target.serving else (parseSlot tg).map Target.slot
    pure { a with st := step (params a) a.st (.mutate t tg op) }
  | ["D", t] => do
    let t ← t.toNat?
    pure { a with st := step (params a) a.st (.done t) }
  | ["O", t] => do
    let t ← t.toNat?
    pure { a with out := observeThread a t :: a.out }
  | ["K"] => pure { a with out := observeClass a :: a.out }
  | _ => none

def step (line : String) : String :=
  match (Proto.fields line).foldlM feed ({} : Acc) with
  | none => "bad-op"
  | some a => if a.out.isEmpty then "-" else " ".intercalate a.out.reverse

end Drv.C10

def main : IO Unit := CpModel.Proto.runDriver Drv.C10.step
