import CpModel.Proto
import CpModel.Cache
/-!
  Driver for C15 (caching tool).  One history per line, space-separated fields:

    C:<delay>:<maxobjects>:<maxobj_size>:<maxsize>      first field: cache configuration
    T<n>                                                clock advances by n ticks (4 ticks = 1 s)
    S                                                   one pass of expire_cache
    R:<method>:<path>:<qs>:<hdrs>:<pragma>:<cc>:<vary>:<size>:<flags>
        strings are hex of their latin-1 bytes (`-` = empty string); lists are comma-joined
        (`_` = empty list); hdrs items are `name=value`; flags: bit0 = response Cache-Control
        no-store, bit1 = response Pragma no-cache, bit2 = response.stream, bit3 = handler / body
        iterator raises, bit4 = client abandons the (streamed) body.

  Output: one token per op (`H<gen>.<age>` hit, `M<gen>.<cacheable>` handler ran, `E400`, `-` for
  T / S) followed by `|cur=<cursize> vals=<stored responses> uris=<len(store)>`.
-/
open CpModel CpModel.Cache

namespace Drv.C15

def str? (s : String) : Option Str :=
  (Proto.unhex? s).map fun bs => bs.map fun b => Char.ofNat b.toNat

def list? (s : String) : Option (List Str) :=
  if s == "_" then some [] else (s.splitOn ",").mapM str?

def pair? (s : String) : Option (Str × Str) :=
  match s.splitOn "=" with
  | [a, b] => do pure (← str? a, ← str? b)
  | _ => none

def hdrs? (s : String) : Option (List (Str × Str)) :=
  if s == "_" then some [] else (s.splitOn ",").mapM pair?

def parseCfg (s : String) : Option Cfg :=
  match s.splitOn ":" with
  | ["C", d, mo, mos, ms] => do
    pure { delay := ← d.toNat?, maxobjects := ← mo.toNat?, maxobjSize := ← mos.toNat?, maxsize := ← ms.toNat? }
  | _ => none

def parseOp (s : String) : Option Op :=
  if s == "S" then some .sweep
  else if s.startsWith "T" then (s.drop 1).toString.toNat?.map .tick
  else match s.splitOn ":" with
    | ["R", m, pa, qs, h, pr, cc, vary, size, flags] => do
      let fl ← flags.toNat?
      if fl > 31 then none
      let r : Req := { method := ← str? m, uri := uriKey (← str? pa) (← str? qs), hdrs := ← hdrs? h, pragma := ← list? pr, cc := ← list? cc }
      let p : Plan := { vary := ← list? vary, size := ← size.toNat?, noStore := fl % 2 == 1, pragmaNoCache := fl / 2 % 2 == 1, stream := fl / 4 % 2 == 1, bodyOk := fl / 8 % 2 == 0, drained := fl / 16 % 2 == 0 }
      pure (.req r p)
    | _ => none

def showOut : Option Ev → String
  | none => "-"
  | some e =>
    match e.out with
    | .hit g a => s!"H{g}.{a}"
    | .miss g c => s!"M{g}.{if c then 1 else 0}"
    | .bad400 => "E400"

def runAll (cfg : Cfg) : World → List Op → List String → World × List String
  | w, [], acc => (w, acc.reverse)
  | w, op :: ops, acc => runAll cfg (step cfg w op).1 ops (showOut (step cfg w op).2 :: acc)

def step (line : String) : String :=
  match Proto.fields line with
  | [] => "bad-op"
  | c :: rest =>
    match parseCfg c, rest.mapM parseOp with
    | some cfg, some ops =>
      let (w, outs) := runAll cfg {} ops []
      " ".intercalate outs ++ s!" |cur={w.cache.cursize} vals={countVals w.cache.store} uris={w.cache.store.length}"
    | _, _ => "bad-op"

end Drv.C15

def main : IO Unit := CpModel.Proto.runDriver Drv.C15.step
