import CpModel.Proto
import CpModel.Cache
import CpModel.CacheConc
import CpModel.CacheHdr
/-!
  Driver for C15 (caching tool).  One history per line, space-separated fields:

    C:<delay>:<maxobjects>:<maxobj_size>:<maxsize>[:<secs>:<force 0|1>:<http11 0|1>]
                                                        first field: cache configuration [+ tools.expires]
    T<n>                                                clock advances by n ticks (4 ticks = 1 s)
    S                                                   one pass of expire_cache
    R:<method>:<path>:<qs>:<hdrs>:<resp Cache-Control>:<resp Pragma>:<resp Vary>:<resp Last-Modified>:<size>:<flags>
        (flags bit3 = the handler sets ETag, bit4 = it sets Expires)
        strings are hex of their latin-1 bytes (`-` = empty string = header absent); hdrs = ALL request
        headers as sent, `name=value` items comma-joined (`_` = none), names in any case (folded here by
        `title`, as `process_headers` does); the header VALUES are raw: tokenisation is the model's
        (`CpModel.CacheHdr.parseReq / parsePlan`); flags: bit0 = response.stream, bit1 = handler / body
        iterator raises, bit2 = client abandons the (streamed) body.

  Function-level lines (each model function of `CpModel.CacheHdr` against the live function):
    HV:<value>                       element values of a header value, comma-joined hex (`_` = none)
    TI:<s>  /  ST:<s>                str.title() / str.strip()
    VS:<method>:<ims>:<ius>:<lastmod>   validate_since on a hit: `serve` | `304` | `412`
    EX:<secs>:<force>:<http11>:<bits>   expires tool: `<pragma><cache-control>:<past|+secs|none>`
                                     bits = etag, last-modified, age, expires, pragma, cache-control present

  Output: one token per op (`H<gen>.<age>` served from the cache, `N<gen>.<age>` 304 from the cache,
  `P<gen>` 412 from the cache, `M<gen>.<cacheable>` handler ran, `E400`, `-` for T / S) followed by `|cur=<cursize> vals=<stored responses> uris=<len(store)>`, followed by
  ` seq=ok` when the interleaving model (`CpModel.CacheConc`) run under the sequential schedule
  (every request alone, every sweep a whole pass) gives the same tokens and totals, else
  ` seq=DIFF:<its line>`.

  Interleaving scenario (`CpModel.CacheConc`), one per line:

    K:<delay>:<maxobjects>:<maxobj_size>:<maxsize>:<waits 0|1>     first field
    N:<method>:<path>:<qs>:<hdrs>:<pragma>:<cc>:<vary>:<size>:<flags>   spawn a request thread
    t<j> / w<j>      thread j performs its pending shared access (w: the Event.wait times out)
    x                the expiry thread performs its pending shared access
    T<n>             clock advances by n ticks

  Output: one snapshot of the whole shared state per act (see `snap`), space separated.
-/
open CpModel CpModel.Cache

namespace Drv.C15

def str? (s : String) : Option Str :=
  (Proto.unhex? s).map fun bs => bs.map fun b => Char.ofNat b.toNat

def list? (s : String) : Option (List Str) :=
  if s == "_" then some [] else (s.splitOn ",").mapM str?

def pair? (s : String) : Option (Str × Str) :=
  match s.splitOn "=" with
  | [a, b] => do pure (← str? a, ← str? b)
  | _ => none

def hdrs? (s : String) : Option (List (Str × Str)) :=
  if s == "_" then some [] else (s.splitOn ",").mapM pair?

def parseCfg (s : String) : Option (Cfg × Option CacheHdr.ExpCfg) :=
  match s.splitOn ":" with
  | ["C", d, mo, mos, ms] => do
    pure ({ delay := ← d.toNat?, maxobjects := ← mo.toNat?, maxobjSize := ← mos.toNat?, maxsize := ← ms.toNat? }, none)
  | ["C", d, mo, mos, ms, secs, force, h11] => do
    pure ({ delay := ← d.toNat?, maxobjects := ← mo.toNat?, maxobjSize := ← mos.toNat?, maxsize := ← ms.toNat? },
          some { secs := ← secs.toInt?, force := force == "1", http11 := h11 == "1" })
  | _ => none

def parseOp (x : Option CacheHdr.ExpCfg) (s : String) : Option Op :=
  if s == "S" then some .sweep
  else if s.startsWith "T" then (s.drop 1).toString.toNat?.map .tick
  else match s.splitOn ":" with
    | ["R", m, pa, qs, h, rcc, rpr, vary, lm, size, flags] => do
      let fl ← flags.toNat?
      if fl > 31 then none
      let hs ← hdrs? h
      let rr : CacheHdr.RawReq := { method := ← str? m, uri := uriKey (← str? pa) (← str? qs),
                                    hdrs := CacheHdr.intake hs }
      let rp : CacheHdr.RawPlan := { vary := ← str? vary, cacheControl := ← str? rcc, pragma := ← str? rpr,
                                     lastMod := ← str? lm, size := ← size.toNat?, stream := fl % 2 == 1,
                                     bodyOk := fl / 2 % 2 == 0, drained := fl / 4 % 2 == 0,
                                     etag := fl / 8 % 2 == 1, expiresHdr := fl / 16 % 2 == 1 }
      pure (.req (CacheHdr.parseReq rr) (CacheHdr.parsePlan (CacheHdr.afterTools x rp)))
    | _ => none

def showFinal : Final → String
  | .served g a => s!"H{g}.{a}"
  | .notModified g a => s!"N{g}.{a}"
  | .precond g => s!"P{g}"
  | .handler g c => s!"M{g}.{if c then 1 else 0}"
  | .bad400 => "E400"

def runAll (cfg : Cfg) : World → List Ev → List Op → List String → World × List String
  | w, _, [], acc => (w, acc.reverse)
  | w, L, op :: ops, acc =>
    match (step cfg w op).2 with
    | some e => runAll cfg (step cfg w op).1 (L ++ [e]) ops (showFinal (finalise L e) :: acc)
    | none => runAll cfg (step cfg w op).1 L ops ("-" :: acc)

/-! ### the interleaving model -/
section conc
open CpModel.CacheConc

def hexStr (s : Str) : String := Proto.hex (s.map fun c => UInt8.ofNat c.toNat)

def hexKey (k : List Str) : String := if k.isEmpty then "_" else ".".intercalate (k.map hexStr)

/-- the answer of a finished thread: on a hit, `validate_since` against the producer's Last-Modified
    (looked up in the log by generation number) -/
def showCOut (log : List Run) (r : Req) : COut → String
  | .hit v a =>
    match log.find? (fun x => x.gen == v.gen) with
    | none => s!"H{v.gen}.{a}"
    | some x =>
      match validateSince r.method r.ims r.ius x.p.lastMod with
      | .serve => s!"H{v.gen}.{a}"
      | .notModified => s!"N{v.gen}.{a}"
      | .precondFailed => s!"P{v.gen}"
  | .miss g c => s!"M{g}.{if c then 1 else 0}"
  | .bad400 => "E400"

def pcLabel (log : List Run) (r : Req) : Pc → String
  | .start => "start"
  | .inval => "store.pop"
  | .sGet => "store.get"
  | .uGet _ => "uc.get"
  | .uSetEv _ => "uc.set"
  | .eWait _ _ => "ev.wait"
  | .eRes _ _ => "ev.result?"
  | .eRes2 _ => "ev.result?"
  | .handler _ => "handler"
  | .tPop _ => "store.pop"
  | .pGet _ => "store.get"
  | .pNew _ => "store.set"
  | .pLen _ _ => "store.len"
  | .pCur _ _ => "cur.get"
  | .pSetdef _ _ _ => "exp.setdefault"
  | .pApp _ _ _ _ => "bucket.append"
  | .pUGet _ _ _ => "uc.get"
  | .pUSet _ _ _ _ => "uc.set"
  | .pERes _ _ _ _ => "ev.result="
  | .pESet _ _ _ => "ev.set"
  | .pCurW _ _ => "cur.set"
  | .done o => showCOut log r o

def xpLabel : XPc → String
  | .idle => "sleep"
  | .iter _ => "bucket.next"
  | .sGet _ _ => "store.get"
  | .uDel _ _ _ => "uc.del"
  | .curR _ _ => "cur.get"
  | .curW _ _ => "cur.set"
  | .xDel _ => "exp.del"

def showSlot : List Str × CSlot → String
  | (k, .ev e) => s!"{hexKey k}=E{e}"
  | (k, .val v) => s!"{hexKey k}=V{v.gen}"

def idx {α : Type} (l : List α) : List (Nat × α) := (List.range l.length).zip l

/-- canonical snapshot of the whole shared state: dict contents sorted by the harness, here in
    model order (the harness sorts both sides) -/
def snap (s : St) : String :=
  let st := ",".intercalate (s.store.map fun p => s!"{hexStr p.1}>{p.2}")
  let uc := ";".intercalate ((idx s.ucs).map fun p => s!"{p.1}:" ++ ",".intercalate (p.2.slots.map showSlot))
  let ev := ",".intercalate ((idx s.evs).map fun p =>
    s!"{p.1}:{match p.2.result with | some v => toString v.gen | none => "-"}:{if p.2.isSet then 1 else 0}")
  let ex := ",".intercalate (s.exps.map fun p => s!"{p.1}>{p.2}")
  let bk := ";".intercalate ((idx s.buckets).map fun p => s!"{p.1}:" ++
    "+".intercalate (p.2.map fun e => s!"{e.size}/{hexStr e.uri}/{hexKey e.key}"))
  let th := ",".intercalate (s.thr.map fun t => pcLabel s.log t.r t.pc)
  s!"st[{st}]uc[{uc}]ev[{ev}]ex[{ex}]bk[{bk}]cur={s.cursize};th[{th}]xp={xpLabel s.xp}"

def parseCCfg (s : String) : Option CCfg :=
  match s.splitOn ":" with
  | ["K", d, mo, mos, ms, w] => do
    pure { base := { delay := ← d.toNat?, maxobjects := ← mo.toNat?, maxobjSize := ← mos.toNat?, maxsize := ← ms.toNat? },
           waits := w == "1" }
  | _ => none

def parseAct (s : String) : Option Act :=
  if s == "x" then some .xp
  else if s.startsWith "T" then (s.drop 1).toString.toNat?.map .tick
  else if s.startsWith "t" then (s.drop 1).toString.toNat?.map fun j => .thr j false
  else if s.startsWith "w" then (s.drop 1).toString.toNat?.map fun j => .thr j true
  else if s.startsWith "N:" then
    match parseOp none ("R:" ++ (s.drop 2).toString) with
    | some (.req r p) => some (.spawn r p)
    | _ => none
  else none

def runSnaps (cfg : CCfg) : St → List Act → List String → List String
  | _, [], acc => acc.reverse
  | s, a :: as, acc => runSnaps cfg (CacheConc.step cfg s a) as (snap (CacheConc.step cfg s a) :: acc)

/-- the sequential history on the interleaving model, rendered like the sequential model's line -/
def seqLine (cfg : Cfg) (ops : List Op) : String :=
  let c : CCfg := { base := cfg, waits := false }
  let rec go (s : St) : List Op → List String → St × List String
    | [], acc => (s, acc.reverse)
    | op :: ops, acc =>
      let s' := seqStep c s op
      match op with
      | .req _ _ => go s' ops ((match s'.thr.getLast? with | some t => pcLabel s'.log t.r t.pc | none => "?") :: acc)
      | _ => go s' ops ("-" :: acc)
  let (s, outs) := go {} ops []
  " ".intercalate outs ++ s!" |cur={s.cursize} vals={CacheConc.countVals s} uris={s.store.length}"

end conc

def joinHex (l : List Str) : String := if l.isEmpty then "_" else ",".intercalate (l.map hexStr)

def bit (n k : Nat) : Bool := n / 2 ^ k % 2 == 1

def fnLine (c : String) : Option String :=
  match c.splitOn ":" with
  | ["HV", v] => do pure (joinHex (CacheHdr.values (← str? v)))
  | ["TI", v] => do pure (hexStr (title (← str? v)))
  | ["ST", v] => do pure (hexStr (CacheHdr.strip (← str? v)))
  | ["VS", m, ims, ius, lm] => do
    pure (match validateSince (← str? m) (← str? ims) (← str? ius) (← str? lm) with
          | .serve => "serve" | .notModified => "304" | .precondFailed => "412")
  | ["EX", secs, force, h11, bits] => do
    let b ← bits.toNat?
    let sc ← secs.toInt?
    let e := CacheHdr.expiresTool sc (force == "1") (h11 == "1")
      ⟨bit b 0, bit b 1, bit b 2, bit b 3, bit b 4, bit b 5⟩
    let d := match e.setExpires with
      | none => "none" | some .past => "past" | some (.at n) => s!"+{n}"
    pure s!"{if e.setPragma then 1 else 0}{if e.setCacheControl then 1 else 0}:{d}"
  | _ => none

def step (line : String) : String :=
  match Proto.fields line with
  | [] => "bad-op"
  | c :: rest =>
    if c.startsWith "HV:" || c.startsWith "TI:" || c.startsWith "ST:" || c.startsWith "VS:" || c.startsWith "EX:" then
      (fnLine c).getD "bad-op"
    else if c.startsWith "K:" then
      match parseCCfg c, rest.mapM parseAct with
      | some cfg, some acts => " ".intercalate (runSnaps cfg {} acts [])
      | _, _ => "bad-op"
    else
    match parseCfg c with
    | none => "bad-op"
    | some (cfg, x) =>
    match rest.mapM (parseOp x) with
    | none => "bad-op"
    | some ops =>
      let (w, outs) := runAll cfg {} [] ops []
      let l := " ".intercalate outs ++ s!" |cur={w.cache.cursize} vals={countVals w.cache.store} uris={w.cache.store.length}"
      let l2 := seqLine cfg ops
      if l == l2 then l ++ " seq=ok" else l ++ " seq=DIFF:" ++ l2.replace " " "_"

end Drv.C15

def main : IO Unit := CpModel.Proto.runDriver Drv.C15.step
