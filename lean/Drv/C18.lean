import CpModel.Proto
import CpModel.Bus
/-!
  Driver for C18 (process bus).  One case per line: a space-separated list of call tokens

    start | stop | exit | restart | graceful | pub:CH | unsub:CH:ID | sub:CH:ID:PRIO:OUT:ACTS

  OUT  = ok | raise | kbd | exitN          ACTS = - | ACT+ACT+…
  ACT  = s~CH~ID~PRIO~OUT | u~CH~ID | p~CH

  Output: `R=<res>,… J=<ch.id.st.prio>,… S=<state> X=<0|1>` (`-` for an empty list).
-/
open CpModel CpModel.Bus

namespace Drv.C18

def parseOut (s : String) : Option Out :=
  if s == "ok" then some .ok
  else if s == "raise" then some .raise
  else if s == "kbd" then some .kbdInt
  else if s.startsWith "exit" then (s.drop 4).toString.toNat?.map .sysExit
  else none

def parseChan (s : String) : Option Chan :=
  if s == "start" then some .start else if s == "stop" then some .stop
  else if s == "exit" then some .exit else if s == "graceful" then some .graceful
  else if s == "log" then some .log else if s == "main" then some .main
  else if s.startsWith "c" then (s.drop 1).toString.toNat?.map .custom
  else none

def showChan : Chan → String
  | .start => "start" | .stop => "stop" | .exit => "exit" | .graceful => "graceful"
  | .log => "log" | .main => "main" | .custom n => s!"c{n}"

def parseAct (s : String) : Option Act :=
  match s.splitOn "~" with
  | ["s", ch, id, prio, out] => do
    let i ← id.toNat?; let p ← prio.toNat?; let o ← parseOut out
    pure (.sub (← parseChan ch) i p o)
  | ["u", ch, id] => do pure (.unsub (← parseChan ch) (← id.toNat?))
  | ["p", ch] => do pure (.pub (← parseChan ch))
  | _ => none

def parseActs (s : String) : Option (List Act) :=
  if s == "-" then some [] else (s.splitOn "+").mapM parseAct

def parseCall (s : String) : Option Call :=
  match s.splitOn ":" with
  | ["start"] => some .start
  | ["stop"] => some .stop
  | ["exit"] => some .exit
  | ["restart"] => some .restart
  | ["graceful"] => some .graceful
  | ["pub", ch] => do pure (.publish (← parseChan ch))
  | ["unsub", ch, id] => do pure (.unsubscribe (← parseChan ch) (← id.toNat?))
  | ["sub", ch, id, prio, out, acts] => do
    let i ← id.toNat?; let p ← prio.toNat?; let o ← parseOut out; let a ← parseActs acts
    pure (.subscribe (← parseChan ch) ⟨i, p, a, o⟩)
  | _ => none

def showSt : St → String
  | .stopped => "STOPPED" | .starting => "STARTING" | .started => "STARTED"
  | .stopping => "STOPPING" | .exiting => "EXITING"

def showRes : Res → String
  | .ret => "ret"
  | .procExit c => s!"procexit{c}"
  | .exc (.chanFail ids) => "fail[" ++ "/".intercalate (ids.map toString) ++ "]"
  | .exc (.sysExit c) => s!"sysexit{c}"
  | .exc .kbdInt => "kbd"
  | .exc .outOfFuel => "outoffuel"

def joinOr (xs : List String) : String := if xs.isEmpty then "-" else ",".intercalate xs

def step (line : String) : String :=
  match (Proto.fields line).mapM parseCall with
  | none => "bad-op"
  | some calls =>
    let (w, rs) := runCalls 8 { bus := Bus.init } calls
    let js := w.j.map fun e => s!"{showChan e.ch}.{e.id}.{showSt e.st}.{e.prio}"
    s!"R={joinOr (rs.map showRes)} J={joinOr js} S={showSt w.bus.state} X={if w.bus.execv then 1 else 0}"

end Drv.C18

def main : IO Unit := CpModel.Proto.runDriver Drv.C18.step
