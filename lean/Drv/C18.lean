import CpModel.Proto
import CpModel.Bus
/-!
  Driver for C18 (process bus).  One case per line: a space-separated list of call tokens

    start | stop | exit | restart | graceful | pub:CH | unsub:CH:ID | atexit | swc
    sub:CH:ID:PRIO:OUT:ACTS                 (explicit priority argument)
    sub:CH:ID:ARG:ATTR:OUT:ACTS             ARG = n | N | dn | dN (d = decorator form), ATTR = n | N
    wait:ST+ST…:CH|none:PLAN   block:PLAN   PLAN = - | o.k.i.xN…  (sleep ok / KeyboardInterrupt /
                                                                   IOError / SystemExit N)

  OUT  = ok | raise | kbd | exitN          ACTS = - | ACT+ACT+…
  ACT  = s~CH~ID~PRIO~OUT | u~CH~ID | p~CH | c~METHOD

  Output: `R=<res;res…>,… J=<ch.id.st.prio.depth>,… S=<state> X=<0|1> T=<state trace> A=<n> W=<n>
  O=<same|diff|na>` (`-` for an empty list).  `O` compares the first-generation model
  (`runCalls`) with the second on lines both can express.
-/
open CpModel CpModel.Bus

namespace Drv.C18

def parseOut (s : String) : Option Out :=
  if s == "ok" then some .ok
  else if s == "raise" then some .raise
  else if s == "kbd" then some .kbdInt
  else if s.startsWith "exit" then (s.drop 4).toString.toNat?.map .sysExit
  else none

def parseChan (s : String) : Option Chan :=
  if s == "start" then some .start else if s == "stop" then some .stop
  else if s == "exit" then some .exit else if s == "graceful" then some .graceful
  else if s == "log" then some .log else if s == "main" then some .main
  else if s.startsWith "c" then (s.drop 1).toString.toNat?.map .custom
  else none

def showChan : Chan → String
  | .start => "start" | .stop => "stop" | .exit => "exit" | .graceful => "graceful"
  | .log => "log" | .main => "main" | .custom n => s!"c{n}"

def parseMeth (s : String) : Option Meth :=
  if s == "start" then some .start else if s == "stop" then some .stop
  else if s == "exit" then some .exit else if s == "restart" then some .restart
  else if s == "graceful" then some .graceful else none

def parseAct (s : String) : Option Act :=
  match s.splitOn "~" with
  | ["s", ch, id, prio, out] => do
    let i ← id.toNat?; let p ← prio.toNat?; let o ← parseOut out
    pure (.sub (← parseChan ch) i p o)
  | ["u", ch, id] => do pure (.unsub (← parseChan ch) (← id.toNat?))
  | ["p", ch] => do pure (.pub (← parseChan ch))
  | ["c", m] => do pure (.call (← parseMeth m))
  | _ => none

def parseActs (s : String) : Option (List Act) :=
  if s == "-" then some [] else (s.splitOn "+").mapM parseAct

def parseSt (s : String) : Option St :=
  if s == "STOPPED" then some .stopped else if s == "STARTING" then some .starting
  else if s == "STARTED" then some .started else if s == "STOPPING" then some .stopping
  else if s == "EXITING" then some .exiting else none

def parseOptNat (s : String) : Option (Option Nat) :=
  let s := if s.startsWith "d" then (s.drop 1).toString else s
  if s == "n" then some none else s.toNat?.map some

def parseSleep (s : String) : Option Sleep :=
  if s == "o" then some .ok else if s == "k" then some .kbd else if s == "i" then some .ioerr
  else if s.startsWith "x" then (s.drop 1).toString.toNat?.map .sysExit else none

def parsePlan (s : String) : Option (List Sleep) :=
  if s == "-" then some [] else (s.splitOn ".").mapM parseSleep

def parseCall (s : String) : Option XCall :=
  match s.splitOn ":" with
  | ["pub", ch] => do pure (.publish (← parseChan ch))
  | ["unsub", ch, id] => do pure (.unsubscribe (← parseChan ch) (← id.toNat?))
  | ["sub", ch, id, prio, out, acts] => do
    let i ← id.toNat?; let p ← prio.toNat?; let o ← parseOut out; let a ← parseActs acts
    pure (.subscribe (← parseChan ch) i (some p) none a o)
  | ["sub", ch, id, arg, attr, out, acts] => do
    let i ← id.toNat?; let o ← parseOut out; let a ← parseActs acts
    pure (.subscribe (← parseChan ch) i (← parseOptNat arg) (← parseOptNat attr) a o)
  | ["atexit"] => some .atexit
  | ["swc"] => some .swc
  | ["wait", ts, ch, plan] => do
    let t ← (ts.splitOn "+").mapM parseSt
    let c ← if ch == "none" then some none else (parseChan ch).map some
    pure (.wait t c (← parsePlan plan))
  | ["block", plan] => do pure (.block (← parsePlan plan))
  | [m] => (parseMeth m).map .meth
  | _ => none

def showSt : St → String
  | .stopped => "STOPPED" | .starting => "STARTING" | .started => "STARTED"
  | .stopping => "STOPPING" | .exiting => "EXITING"

def showXO : XO → String
  | none => "ret"
  | some (.procExit c) => s!"procexit{c}"
  | some (.chanFail ids) => "fail[" ++ "/".intercalate (ids.map toString) ++ "]"
  | some (.sysExit c) => s!"sysexit{c}"
  | some .kbdInt => "kbd"
  | some .ioErr => "ioerr"
  | some .execv => "execv"
  | some .hang => "hang"
  | some .outOfFuel => "outoffuel"

def joinOr (xs : List String) : String := if xs.isEmpty then "-" else ",".intercalate xs

/-! first generation, for the lines it can express -/

def actOld : Act → Bool
  | .call _ => false
  | _ => true

def toOld : XCall → Option Call
  | .meth .start => some .start
  | .meth .stop => some .stop
  | .meth .exit => some .exit
  | .meth .restart => some .restart
  | .meth .graceful => some .graceful
  | .publish ch => some (.publish ch)
  | .subscribe ch id arg attr acts out =>
    if acts.all actOld then some (.subscribe ch ⟨id, effPrio arg attr, acts, out⟩) else none
  | .unsubscribe ch id => some (.unsubscribe ch id)
  | _ => none

def resToXO : Res → XO
  | .ret => none
  | .procExit c => some (.procExit c)
  | .exc (.chanFail ids) => some (.chanFail ids)
  | .exc (.sysExit c) => some (.sysExit c)
  | .exc .kbdInt => some .kbdInt
  | .exc .outOfFuel => some .outOfFuel

def compareOld (calls : List XCall) (w : XW) (rs : List (List XO)) : String :=
  match calls.mapM toOld with
  | none => "na"
  | some cs =>
    let (wo, ro) := runCalls 8 { bus := Bus.init } cs
    let jx := w.j.map fun e => (Entry.mk e.ch e.id e.st e.prio)
    if ro.map (fun r => [resToXO r]) == rs && decide (wo.j = jx) && decide (wo.bus.state = w.bus.state)
        && wo.bus.execv == w.bus.execv then "same" else "diff"

/-- unit lines: `cf:E.E.E` (exceptions handled in order, `-` = none) and
    `log:TB:LEVEL:MSG:EXC` (texts as decimal code points) -/
def unitStep (line : String) : Option String :=
  match line.trimAscii.toString.splitOn ":" with
  | ["cf", es] => do
    let xs ← if es == "-" then some [] else (es.splitOn ".").mapM (·.toNat?)
    let c := xs.foldl CF.handle {}
    some s!"CF={if c.truthy then 1 else 0}:{"/".intercalate (c.instances.map toString)}"
  | ["log", tb, level, msg, exc] => do
    let l ← level.toNat?
    let m ← Proto.untext? msg
    let x ← Proto.untext? exc
    let r := logArgs m l (tb == "1") x
    some s!"LOG={Proto.text r.1}:{r.2}"
  | _ => none

def step (line : String) : String :=
  if line.startsWith "cf:" || line.startsWith "log:" then (unitStep line).getD "bad-op" else
  match (Proto.fields line).mapM parseCall with
  | none => "bad-op"
  | some calls =>
    let (w, rs) := runCallsX 16 { bus := Bus.init } calls
    let js := w.j.map fun e => s!"{showChan e.ch}.{e.id}.{showSt e.st}.{e.prio}.{e.depth}"
    let rr := rs.map fun r => ";".intercalate (r.map showXO)
    s!"R={joinOr rr} J={joinOr js} S={showSt w.bus.state} X={if w.bus.execv then 1 else 0} T={joinOr (w.tr.map showSt)} A={w.atexit} W={w.warns} O={compareOld calls w rs}"

end Drv.C18

def main : IO Unit := CpModel.Proto.runDriver Drv.C18.step
