import CpModel.Proto
import CpModel.ParseSites
import CpModel.ParseTok
import CpModel.Gen.C07Tables
/-!
  Driver for C07 (parse sites / catch map).  One case per line:

    ranges <text> <len>          -> `ok|err:<Class> st:<status> <N|-|a:b,..>` (`_get_ranges`, the /file site, public `get_ranges`)
    qs <text>                    -> `ok|err:<Class> st:<status>`      (`parse_query_string`, then the request)
    urlenc <hex> <codec|->       -> `st:<status>`                     (`process_urlencoded`)
    multipart <text> <hex> <0|1> -> `st:<status>`                     (`process_multipart` on multipart/mixed)
    fstar <text> <known|unknown> -> `st:<status>`                     (`filename*`)
    qvalue <text>                -> `ok|http:<code>`                  (`AcceptElement.qvalue`)
    maxage <text>                -> `st:<status>`                     (`caching.get` max-age check)
    phdr <text>                  -> `<key> <name>=<value> ...`        (`parse_header`)
    hsplit <text>                -> the pieces of `RE_HEADER_SPLIT.split`
    helems <name> <value>        -> `ok <element> ...` | `http:400`   (`header_elements`, unsorted)
    dinit <field=text> ...       -> `ok` | `err:<Class>`              (`HttpDigestAuthorization.__init__` checks)
    dflow <s><d><h> <E:Class|P> <n><u><m><st> <field=text> ... -> status  (`digest_auth`)
    respenc <0|1> <text>         -> `ok <hex>` | `err:ValueError`     (`HeaderMap.encode_header_item`)
    bflow <p><s><b><a><c><w> <-|Class> -> status                     (`basic_auth`)
    unq <hex>                    -> hex                               (`_cpreqbody.unquote_plus`)
    limit <maxbytes> <declared|N> <arrived> -> `st:<status>`          (`SizedReader` size limit)
    host <p11 0|1> <hasHost 0|1> -> `st:<status>`                     (Host rule of `process_headers`)
    respcls <text>               -> class of a response header value
    trailers <hex,hex,..|_>      -> `ok` | `http:400` | `err:<Class>`  (`SizedReader.finish` over the trailer lines)
    bind <bound> <args> <ndefaults> <va><vk> <npos> <kwargs> -> `<0|1> <http:code|reraise> <status>`
                                   (Python's argument binding, `test_callable_spec`; lists: comma separated, `_` = empty;
                                    a keyword is `text:0|1`, 1 = it came with the body)
    contract <site>              -> comma separated class names (`-` when empty)
    catch <site> <class>         -> status

  text = decimal code points joined by `.`, `-` = empty; hex = bytes.
-/
open CpModel CpModel.Parse

namespace Drv.C07

def excName : Exc → String
  | .ValueError => "ValueError" | .UnicodeError => "UnicodeError" | .UnicodeDecodeError => "UnicodeDecodeError"
  | .UnicodeEncodeError => "UnicodeEncodeError" | .LookupError => "LookupError" | .KeyError => "KeyError"
  | .IndexError => "IndexError" | .EOFError => "EOFError" | .TypeError => "TypeError"
  | .AttributeError => "AttributeError" | .NameError => "NameError" | .UnboundLocalError => "UnboundLocalError"
  | .RuntimeError => "RuntimeError" | .RecursionError => "RecursionError" | .BinasciiError => "BinasciiError"
  | .MessageError => "MessageError" | .HeaderParseError => "HeaderParseError" | .CookieError => "CookieError"
  | .OverflowError => "OverflowError" | .JSONDecodeError => "JSONDecodeError" | .OSError => "OSError"
  | .AssertionError => "AssertionError" | .MaxSizeExceeded => "MaxSizeExceeded" | .HTTP400 => "HTTP400"

def siteName : Site → String
  | .decodeHeader => "decodeHeader" | .decodeTextCharset => "decodeTextCharset" | .cookieLoad => "cookieLoad"
  | .qsUnquote => "qsUnquote" | .imageMapInt => "imageMapInt" | .getRanges => "getRanges"
  | .qvalueAccept => "qvalueAccept" | .qvalueGzip => "qvalueGzip" | .contentLengthInt => "contentLengthInt"
  | .urlencDecode => "urlencDecode" | .partDecode => "partDecode" | .partHeaders => "partHeaders"
  | .partBody => "partBody" | .filenameStar => "filenameStar" | .jsonDecode => "jsonDecode"
  | .basicB64 => "basicB64" | .digestKeqv => "digestKeqv" | .encodeCharset => "encodeCharset"
  | .proxyNetloc => "proxyNetloc" | .redirectNetloc => "redirectNetloc" | .rfileRead => "rfileRead"

def parseExc (s : String) : Option Exc := allExcs.find? (excName · == s)
def parseSite (s : String) : Option Site := allSites.find? (siteName · == s)

def parseCodec (s : String) : Option (Option Codec) :=
  if s == "-" then some none
  else if s == "utf8" then some (some .utf8)
  else if s == "latin1" then some (some .latin1)
  else if s == "ascii" then some (some .ascii)
  else if s == "unknown" then some (some .unknown)
  else if s == "undefined" then some (some .undefined)
  else none

def showRaw {α : Type} : Except Raised α → String
  | .ok _ => "ok"
  | .error (.py e) => "err:" ++ excName e
  | .error (.http c) => s!"http:{c}"

def st {α : Type} (s : Site) (r : Except Raised α) : String := s!"st:{statusOf s r}"

def showParams (ps : Params) : String :=
  " ".intercalate (ps.map fun p => s!"{Proto.text p.1}={Proto.text p.2}")

def showPVal : PVal → String
  | .str s => s!"S:{Proto.text s}"
  | .elem v ps => "E:" ++ ",".intercalate (Proto.text v :: ps.map fun p => s!"{Proto.text p.1}:{Proto.text p.2}")

def showElem (e : HElem) : String :=
  ";".intercalate (Proto.text e.value :: e.params.map fun p => s!"{Proto.text p.1}={showPVal p.2}")

def parseField (d : DigestParams) (f : String) : Option DigestParams :=
  match f.splitOn "=" with
  | [k, v] =>
    match Proto.untext? v with
    | none => none
    | some t =>
      if k == "realm" then some { d with realm := some t }
      else if k == "username" then some { d with username := some t }
      else if k == "nonce" then some { d with nonce := some t }
      else if k == "uri" then some { d with uri := some t }
      else if k == "response" then some { d with response := some t }
      else if k == "algorithm" then some { d with algorithm := some t }
      else if k == "cnonce" then some { d with cnonce := some t }
      else if k == "qop" then some { d with qop := some t }
      else if k == "nc" then some { d with nc := some t }
      else none
  | _ => none

def parseFields (fs : List String) : Option DigestParams :=
  fs.foldlM parseField ⟨none, none, none, none, none, none, none, none, none⟩

def textList? (s : String) : Option (List Text) :=
  if s == "_" then some [] else (s.splitOn ",").mapM Proto.untext?

def kwList? (s : String) : Option (List (Text × Bool)) :=
  if s == "_" then some [] else
  (s.splitOn ",").mapM fun item =>
    match item.splitOn ":" with
    | [t, b] =>
      match Proto.untext? t with
      | some k => if b == "1" then some (k, true) else if b == "0" then some (k, false) else none
      | none => none
    | _ => none

def bit? (c : Char) : Option Bool := if c = '1' then some true else if c = '0' then some false else none

def step (line : String) : String :=
  match Proto.fields line with
  | ["phdr", t] =>
    match Proto.untext? t with
    | some l => let r := parseHeader l; (Proto.text r.1 ++ " " ++ showParams r.2).trimAscii.toString
    | none => "bad-op"
  | ["hsplit", t] =>
    match Proto.untext? t with
    | some l => " ".intercalate ((headerSplit l).map Proto.text)
    | none => "bad-op"
  | ["helems", n, v] =>
    match Proto.untext? n, Proto.untext? v with
    | some name, some value =>
      match headerElements name value with
      | .ok els => ("ok " ++ " ".intercalate (els.map showElem)).trimAscii.toString
      | .error (.http c) => s!"http:{c}"
      | .error (.py e) => "err:" ++ excName e
    | _, _ => "bad-op"
  | "dinit" :: fs =>
    match parseFields fs with
    | some p => showRaw (digestInit CpModel.Gen.C07.digestAlgsUpper CpModel.Gen.C07.digestQops p)
    | none => "bad-op"
  | "dflow" :: b3 :: tok :: e4 :: fs =>
    match b3.toList.mapM bit?, e4.toList.mapM bit?, parseFields fs with
    | some [sc, dc, hp], some [nv, uk, dm, stl], some p =>
      let t : Option (Except Exc DigestParams) :=
        if tok == "P" then some (.ok p)
        else if tok.startsWith "E:" then (parseExc (tok.drop 2).toString).map .error
        else none
      match t with
      | some tk => toString (digestAuth CpModel.Gen.C07.digestAlgsUpper CpModel.Gen.C07.digestQops sc dc hp tk ⟨nv, uk, dm, stl⟩)
      | none => "bad-op"
    | _, _, _ => "bad-op"
  | ["respenc", p, t] =>
    match bit? (p.toList.headD 'x'), Proto.untext? t with
    | some p11, some l =>
      match respEncode p11 l with
      | .ok b => "ok " ++ Proto.hex b
      | .error _ => "err:ValueError"
    | _, _ => "bad-op"
  | ["bind", b, a, nd, flags, np, kws] =>
    match Proto.untext? b, textList? a, nd.toNat?, flags.toList.mapM bit?, np.toNat?, kwList? kws with
    | some bound, some args, some ndef, some [va, vk], some npos, some kwargs =>
      let sg : Sig := ⟨bound, args, ndef, va, vk⟩
      let c : Call := ⟨npos, kwargs⟩
      let fx := CpModel.Gen.C07.boundArgClassified
      let spec := match testCallableSpec fx sg c with
        | .http code => s!"http:{code}"
        | .reraise => "reraise"
      s!"{if bindFails sg c then 1 else 0} {spec} {dispatchStatus fx sg c}"
    | _, _, _, _, _, _ => "bad-op"
  | ["trailers", t] =>
    let ls : Option (List (List UInt8)) := if t == "_" then some [] else (t.splitOn ",").mapM Proto.unhex?
    match ls with
    | some lines => showRaw (trailerFinish CpModel.Gen.C07.trailerErrorsAre400 lines)
    | none => "bad-op"
  | ["bflow", bits, e] =>
    match bits.toList.mapM bit? with
    | some [p, sp, sb, a, c, w] =>
      let b64 : Option (Option Exc) := if e == "-" then some none else (parseExc e).map some
      match b64 with
      | some b => toString (basicAuth ⟨p, sp, sb, a, b, c, w⟩)
      | none => "bad-op"
    | _ => "bad-op"
  | ["unq", h] =>
    match Proto.unhex? h with
    | some b => Proto.hex (unquotePlusBytes b)
    | none => "bad-op"
  | ["limit", m, d, a] =>
    match m.toNat?, Proto.optNat? d, a.toNat? with
    | some mb, some dl, some ar => st .rfileRead (sizedRead mb dl ar)
    | _, _, _ => "bad-op"
  | ["host", p, h] =>
    match bit? (p.toList.headD 'x'), bit? (h.toList.headD 'x') with
    | some p11, some hh => st .cookieLoad (hostRule p11 hh)
    | _, _ => "bad-op"
  | ["respcls", t] =>
    match Proto.untext? t with
    | some l => reprStr (respClsOf l)
    | none => "bad-op"
  | ["ranges", t, n] =>
    match Proto.untext? t, n.toNat? with
    | some hv, some len =>
      let r := getRangesRaw hv len
      -- the public `get_ranges`: an empty header or a ValueError is "no Range header"
      let pub : String := if hv.isEmpty then "N" else match r with
        | .ok (some []) => "-"
        | .ok (some l) => ",".intercalate (l.map fun p => s!"{p.1}:{p.2}")
        | _ => "N"
      s!"{showRaw r} {st .getRanges r} {pub}"
    | _, _ => "bad-op"
  | ["qs", t] =>
    match Proto.untext? t with
    | some q => let r := parseQuery q; s!"{showRaw r} {st .qsUnquote r}"
    | none => "bad-op"
  | ["urlenc", h, c] =>
    match Proto.unhex? h, parseCodec c with
    | some b, some d => st .urlencDecode (processUrlencoded b d)
    | _, _ => "bad-op"
  | ["multipart", t, h, f] =>
    match Proto.untext? t, Proto.unhex? h with
    | some ib, some b =>
      if f == "0" then st .partHeaders (processMultipart ib b false)
      else if f == "1" then st .partHeaders (processMultipart ib b true)
      else "bad-op"
    | _, _ => "bad-op"
  | ["fstar", t, k] =>
    match Proto.untext? t with
    | some v =>
      if k == "known" then st .filenameStar (filenameStar v true)
      else if k == "unknown" then st .filenameStar (filenameStar v false)
      else "bad-op"
    | none => "bad-op"
  | ["qvalue", t] =>
    match Proto.untext? t with
    | some v => showRaw (qvalue v)
    | none => "bad-op"
  | ["maxage", t] =>
    match Proto.untext? t with
    | some v => st .contentLengthInt (maxAge v)
    | none => "bad-op"
  | ["contract", s] =>
    match parseSite s with
    | some site => let xs := (contract site).map excName; if xs.isEmpty then "-" else ",".intercalate xs
    | none => "bad-op"
  | ["catch", s, e] =>
    match parseSite s, parseExc e with
    | some site, some exc => toString (catchHand site exc)
    | _, _ => "bad-op"
  | _ => "bad-op"

end Drv.C07

def main : IO Unit := CpModel.Proto.runDriver Drv.C07.step
