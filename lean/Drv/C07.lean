import CpModel.Proto
import CpModel.ParseSites
/-!
  Driver for C07 (parse sites / catch map).  One case per line:

    ranges <text> <len>          -> `ok|err:<Class> st:<status>`      (`_get_ranges`, then the /file site)
    qs <text>                    -> `ok|err:<Class> st:<status>`      (`parse_query_string`, then the request)
    urlenc <hex> <codec|->       -> `st:<status>`                     (`process_urlencoded`)
    multipart <text> <hex> <0|1> -> `st:<status>`                     (`process_multipart` on multipart/mixed)
    fstar <text> <known|unknown> -> `st:<status>`                     (`filename*`)
    qvalue <text>                -> `ok|http:<code>`                  (`AcceptElement.qvalue`)
    maxage <text>                -> `st:<status>`                     (`caching.get` max-age check)
    contract <site>              -> comma separated class names (`-` when empty)
    catch <site> <class>         -> status

  text = decimal code points joined by `.`, `-` = empty; hex = bytes.
-/
open CpModel CpModel.Parse

namespace Drv.C07

def excName : Exc → String
  | .ValueError => "ValueError" | .UnicodeError => "UnicodeError" | .UnicodeDecodeError => "UnicodeDecodeError"
  | .UnicodeEncodeError => "UnicodeEncodeError" | .LookupError => "LookupError" | .KeyError => "KeyError"
  | .IndexError => "IndexError" | .EOFError => "EOFError" | .TypeError => "TypeError"
  | .AttributeError => "AttributeError" | .NameError => "NameError" | .UnboundLocalError => "UnboundLocalError"
  | .RuntimeError => "RuntimeError" | .RecursionError => "RecursionError" | .BinasciiError => "BinasciiError"
  | .MessageError => "MessageError" | .HeaderParseError => "HeaderParseError" | .CookieError => "CookieError"
  | .OverflowError => "OverflowError" | .JSONDecodeError => "JSONDecodeError" | .OSError => "OSError"
  | .AssertionError => "AssertionError" | .HTTP400 => "HTTP400"

def siteName : Site → String
  | .decodeHeader => "decodeHeader" | .decodeTextCharset => "decodeTextCharset" | .cookieLoad => "cookieLoad"
  | .qsUnquote => "qsUnquote" | .imageMapInt => "imageMapInt" | .getRanges => "getRanges"
  | .qvalueAccept => "qvalueAccept" | .qvalueGzip => "qvalueGzip" | .contentLengthInt => "contentLengthInt"
  | .urlencDecode => "urlencDecode" | .partDecode => "partDecode" | .partHeaders => "partHeaders"
  | .partBody => "partBody" | .filenameStar => "filenameStar" | .jsonDecode => "jsonDecode"
  | .basicB64 => "basicB64" | .digestKeqv => "digestKeqv"

def parseExc (s : String) : Option Exc := allExcs.find? (excName · == s)
def parseSite (s : String) : Option Site := allSites.find? (siteName · == s)

def parseCodec (s : String) : Option (Option Codec) :=
  if s == "-" then some none
  else if s == "utf8" then some (some .utf8)
  else if s == "latin1" then some (some .latin1)
  else if s == "ascii" then some (some .ascii)
  else if s == "unknown" then some (some .unknown)
  else if s == "undefined" then some (some .undefined)
  else none

def showRaw {α : Type} : Except Raised α → String
  | .ok _ => "ok"
  | .error (.py e) => "err:" ++ excName e
  | .error (.http c) => s!"http:{c}"

def st {α : Type} (s : Site) (r : Except Raised α) : String := s!"st:{statusOf s r}"

def step (line : String) : String :=
  match Proto.fields line with
  | ["ranges", t, n] =>
    match Proto.untext? t, n.toNat? with
    | some hv, some len => let r := getRangesRaw hv len; s!"{showRaw r} {st .getRanges r}"
    | _, _ => "bad-op"
  | ["qs", t] =>
    match Proto.untext? t with
    | some q => let r := parseQuery q; s!"{showRaw r} {st .qsUnquote r}"
    | none => "bad-op"
  | ["urlenc", h, c] =>
    match Proto.unhex? h, parseCodec c with
    | some b, some d => st .urlencDecode (processUrlencoded b d)
    | _, _ => "bad-op"
  | ["multipart", t, h, f] =>
    match Proto.untext? t, Proto.unhex? h with
    | some ib, some b =>
      if f == "0" then st .partHeaders (processMultipart ib b false)
      else if f == "1" then st .partHeaders (processMultipart ib b true)
      else "bad-op"
    | _, _ => "bad-op"
  | ["fstar", t, k] =>
    match Proto.untext? t with
    | some v =>
      if k == "known" then st .filenameStar (filenameStar v true)
      else if k == "unknown" then st .filenameStar (filenameStar v false)
      else "bad-op"
    | none => "bad-op"
  | ["qvalue", t] =>
    match Proto.untext? t with
    | some v => showRaw (qvalue v)
    | none => "bad-op"
  | ["maxage", t] =>
    match Proto.untext? t with
    | some v => st .contentLengthInt (maxAge v)
    | none => "bad-op"
  | ["contract", s] =>
    match parseSite s with
    | some site => let xs := (contract site).map excName; if xs.isEmpty then "-" else ",".intercalate xs
    | none => "bad-op"
  | ["catch", s, e] =>
    match parseSite s, parseExc e with
    | some site, some exc => toString (catchHand site exc)
    | _, _ => "bad-op"
  | _ => "bad-op"

end Drv.C07

def main : IO Unit := CpModel.Proto.runDriver Drv.C07.step
