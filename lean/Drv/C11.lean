import CpModel.Proto
import CpModel.PathContain
import CpModel.PathLinks
/-!
  Driver for C11 (path containment).  Text fields use `Proto.text` (decimal code points joined
  by `.`, `-` = empty).  One case per line:

    norm T | join T T | abs CWD T | unq T | comps T
    static METHOD MATCHOK(0/1) SECTION DIR ROOT INDEX PATHINFO K1 K2      K = m | d | f
        (K1 = what stat says about the first file name, K2 = about any other path)
    sess OP CWD STORAGE ID              OP = exists | load | save | delete | lock
    cleanup CWD STORAGE (NAME STATE)*   STATE = u | f | e
    flow CWD STORAGE COOKIE|N PRESENT(0/1) GEN1 GEN2 ACTION    ACTION = none|read|write|delete|regenerate
    resolve DIRS FILES PATH             DIRS/FILES = T,T,… or `-` (absolute paths)
    lresolve NODES FOLLOW(0/1) PATH     NODES = `-` or LOC:d | LOC:f | LOC:l:TARGET joined by `,` (tree with links)
    sfile METHOD MATCHOK(0/1) FILENAME ROOT K1          (tools.staticfile)
    len CWD STORAGE                     (FileSession.__len__)

  Output: a text, `C=T,T…`, `O=<outcome> A=<op:T,…>`, `400`, `A=…`, `enoent:T|dir:T|file:T`.
-/
open CpModel CpModel.PathContain

namespace Drv.C11

def showOp : Op → String
  | .stat => "stat" | .openR => "openr" | .openW => "openw" | .unlink => "unlink"
  | .lock => "lock" | .listdir => "listdir"

def showAcc (as : List Access) : String :=
  if as.isEmpty then "A=-" else
  "A=" ++ ",".intercalate (as.map fun a => s!"{showOp a.op}:{Proto.text a.path}")

def parseKind (s : String) : Option Kind :=
  if s == "m" then some .missing else if s == "d" then some .dir
  else if s == "f" then some .file else none

def parseBool (s : String) : Option Bool :=
  if s == "0" then some false else if s == "1" then some true else none

def parseSessOp (s : String) : Option SessOp :=
  if s == "exists" then some .exists_ else if s == "load" then some .load
  else if s == "save" then some .save else if s == "delete" then some .delete
  else if s == "lock" then some .acquireLock else none

def parseStored (s : String) : Option Stored :=
  if s == "u" then some .unreadable else if s == "f" then some .fresh
  else if s == "e" then some .expired else none

def parseAction (s : String) : Option Action :=
  if s == "none" then some .none else if s == "read" then some .read
  else if s == "write" then some .write else if s == "delete" then some .delete
  else if s == "regenerate" then some .regenerate else none

def showOutcome : Outcome → String
  | .passThrough => "pass" | .valueError => "valueerror" | .forbidden => "403"
  | .served _ => "served" | .notHandled => "nothandled"

def parsePairs : List String → Option (List (Str × Stored))
  | [] => some []
  | [_] => none
  | n :: s :: rest => do
    let n' ← Proto.untext? n
    let s' ← parseStored s
    let r ← parsePairs rest
    pure ((n', s') :: r)

def parsePathList (s : String) : Option (List (List Str)) :=
  if s == "-" then some [] else
  (s.splitOn ",").mapM fun t => (Proto.untext? t).map components

def showComps (cs : List Str) : String := Proto.text ('/' :: joinSlash cs)

def parseNode (s : String) : Option (List Str × Node) :=
  match s.splitOn ":" with
  | [loc, "d"] => (Proto.untext? loc).map fun l => (components l, .dir)
  | [loc, "f"] => (Proto.untext? loc).map fun l => (components l, .file)
  | [loc, "l", tgt] => do
    let l ← Proto.untext? loc
    let t ← Proto.untext? tgt
    pure (components l, .link t)
  | _ => none

def parseNodes (s : String) : Option LTree :=
  if s == "-" then some ⟨[]⟩ else ((s.splitOn ",").mapM parseNode).map fun ns => ⟨ns⟩

def step (line : String) : String :=
  match Proto.fields line with
  | ["norm", t] => match Proto.untext? t with
    | some p => Proto.text (normpath p) | none => "bad-op"
  | ["join", a, b] => match Proto.untext? a, Proto.untext? b with
    | some a, some b => Proto.text (join a b) | _, _ => "bad-op"
  | ["abs", a, b] => match Proto.untext? a, Proto.untext? b with
    | some a, some b => Proto.text (abspath a b) | _, _ => "bad-op"
  | ["unq", t] => match Proto.untext? t with
    | some p => Proto.text (unquote p) | none => "bad-op"
  | ["comps", t] => match Proto.untext? t with
    | some p =>
      let cs := components p
      if cs.isEmpty then "C=-" else "C=" ++ ",".intercalate (cs.map Proto.text)
    | none => "bad-op"
  | ["static", m, mo, se, d, r, ix, pi, k1, k2] =>
    match (do
      let m ← Proto.untext? m; let mo ← parseBool mo; let se ← Proto.untext? se
      let d ← Proto.untext? d; let r ← Proto.untext? r; let ix ← Proto.untext? ix
      let pi ← Proto.untext? pi; let k1 ← parseKind k1; let k2 ← parseKind k2
      let i : StaticIn := ⟨m, mo, se, d, r, ix, pi⟩
      let first : Option Str := (staticDir i).map fun dir => staticTarget (join dir (staticBranch unquote i))
      let fs : Str → Kind := fun p => if some p = first then k1 else k2
      pure (staticdir unquote fs i)) with
    | some res => s!"O={showOutcome res.outcome} {showAcc res.accesses}"
    | none => "bad-op"
  | ["sess", op, cwd, st, id] =>
    match (do
      let op ← parseSessOp op; let cwd ← Proto.untext? cwd; let st ← Proto.untext? st
      let id ← Proto.untext? id
      pure (sessOp op cwd (sessionRoot cwd st) id)) with
    | some (some as) => showAcc as
    | some none => "400"
    | none => "bad-op"
  | "cleanup" :: cwd :: st :: rest =>
    match (do
      let cwd ← Proto.untext? cwd; let st ← Proto.untext? st
      let ps ← parsePairs rest
      pure (cleanUp (sessionRoot cwd st) ps)) with
    | some as => showAcc as
    | none => "bad-op"
  | ["flow", cwd, st, ck, pr, g1, g2, act] =>
    match (do
      let cwd ← Proto.untext? cwd; let st ← Proto.untext? st
      let ck ← (if ck == "N" then some none else (Proto.untext? ck).map some)
      let pr ← parseBool pr; let g1 ← Proto.untext? g1; let g2 ← Proto.untext? g2
      let act ← parseAction act
      pure (sessionRequest cwd st ck pr g1 g2 act)) with
    | some (some as) => showAcc as
    | some none => "400"
    | none => "bad-op"
  | ["resolve", ds, fs, p] =>
    match (do
      let ds ← parsePathList ds; let fs ← parsePathList fs; let p ← Proto.untext? p
      pure (resolve ⟨ds, fs⟩ p)) with
    | some (.enoent q) => "enoent:" ++ showComps q
    | some (.dir q) => "dir:" ++ showComps q
    | some (.file q) => "file:" ++ showComps q
    | none => "bad-op"
  | ["lresolve", ns, fl, p] =>
    match (do
      let t ← parseNodes ns; let fl ← parseBool fl; let p ← Proto.untext? p
      pure (lresolve t fl p)) with
    | some (.enoent q) => "enoent:" ++ showComps q
    | some .eloop => "eloop"
    | some (.dir q) => "dir:" ++ showComps q
    | some (.file q) => "file:" ++ showComps q
    | some (.lnk q) => "lnk:" ++ showComps q
    | none => "bad-op"
  | ["sfile", m, mo, f, r, k1] =>
    match (do
      let m ← Proto.untext? m; let mo ← parseBool mo; let f ← Proto.untext? f
      let r ← Proto.untext? r; let k1 ← parseKind k1
      pure (staticfile (fun _ => k1) ⟨m, mo, f, r⟩)) with
    | some res => s!"O={showOutcome res.outcome} {showAcc res.accesses}"
    | none => "bad-op"
  | ["len", cwd, st] =>
    match (do
      let cwd ← Proto.untext? cwd; let st ← Proto.untext? st
      pure (sessLen (sessionRoot cwd st))) with
    | some as => showAcc as
    | none => "bad-op"
  | _ => "bad-op"

end Drv.C11

def main : IO Unit := CpModel.Proto.runDriver Drv.C11.step
