import CpModel.PipelineProto
import CpModel.WsgiBoundaryProto
import CpModel.PipelineLazy
/-!
  Driver for C01 (exactly one well-formed response; errors contained).  Lines starting with `B` / `R` are
  plans of the WSGI-boundary models (`CpModel/WsgiBoundaryProto.lean`: body iterators that misbehave,
  InternalRedirect chains with query strings); every other line is a fault plan, handled by the same step
  function as in the C09 driver (`CpModel/PipelineProto.lean`).
-/
def step (line : String) : String :=
  match CpModel.Proto.fields line with
  | "B" :: _ => CpModel.WsgiBoundaryProto.step line
  | "R" :: _ => CpModel.WsgiBoundaryProto.step line
  | "L" :: rest => CpModel.PipelineLazy.driverLine rest      -- lazy assembly of the WSGI pipeline, two threads
  | toks =>
    -- `genx=<page>:<class>,…` (C01 fault plans): the class of what a *streamed* generator raises mid-stream; the
    -- model has one answer for every `Exception` subclass there, so the token is dropped; `xcls=<class>`: the builtin
    -- class the outcome `ex` raises at every site (ValueError, KeyError, …): one answer as well
    CpModel.PipelineProto.step (" ".intercalate (toks.filter fun t => !(t.startsWith "genx=" || t.startsWith "xcls=")))

def main : IO Unit := CpModel.Proto.runDriver step
