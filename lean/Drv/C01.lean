import CpModel.PipelineProto
import CpModel.WsgiBoundaryProto
/-!
  Driver for C01 (exactly one well-formed response; errors contained).  Lines starting with `B` / `R` are
  plans of the WSGI-boundary models (`CpModel/WsgiBoundaryProto.lean`: body iterators that misbehave,
  InternalRedirect chains with query strings); every other line is a fault plan, handled by the same step
  function as in the C09 driver (`CpModel/PipelineProto.lean`).
-/
def step (line : String) : String :=
  match CpModel.Proto.fields line with
  | "B" :: _ => CpModel.WsgiBoundaryProto.step line
  | "R" :: _ => CpModel.WsgiBoundaryProto.step line
  | _ => CpModel.PipelineProto.step line

def main : IO Unit := CpModel.Proto.runDriver step
