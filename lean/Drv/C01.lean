import CpModel.PipelineProto
/-!
  Driver for C01 (exactly one well-formed response; errors contained).  Same step function as the C09
  driver: one fault plan per line in, one canonical result line out (journal incl. `start_response`
  calls, kind of the response entity, escaped?, last request's show_tracebacks); the protocol is
  documented in `CpModel/PipelineProto.lean`.
-/
def main : IO Unit := CpModel.Proto.runDriver CpModel.PipelineProto.step
