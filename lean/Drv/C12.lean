import CpModel.Proto
import CpModel.HeaderEnc
import CpModel.Escape
import CpModel.HeaderNorm
/-!
  Driver for C12.  One case per line, fields separated by one space.
  `T` = text as decimal code points joined by `.` (`-` = empty), `H` = lower-case hex (`-` = empty).

    item T            -> ok H | err:<e>          HeaderMap.encode_header_item(str)
    itemb H           -> ok H                    HeaderMap.encode_header_item(bytes)
    hdr T T           -> ok H H | err:<e>        one (name, value) of HeaderMap.output()
    status N T        -> ok H | err:<e>          status line of Response.finalize (repaired)
    statusold N T     -> ok H | err:<e>          … as assembled before the fix
    cookie T          -> ok H H | err:<e>        one morsel of Response.finalize (repaired)
    cookiesold T …    -> ok H H H H … | err:<e>  all morsels, as assembled before the fix
    host T            -> T                       SanitizedHost._sanitize
    hesc T            -> T                       html.escape(s, quote=False)
    qattr T           -> T                       saxutils.quoteattr
    errpage T T T T   -> ok H | none             get_error_page(status, message, traceback, version) bytes
    errpagefail T T T T T -> ok H | none         … when the custom error page failed with exception line e
    redir N T …       -> ok H | none             HTTPRedirect.set_response body bytes
    log T             -> T                       one access-log atom
    logline k=T …     -> ok T | none             the access-log line
    b64d H            -> ok H | none             own base64 decoder (validated against Python's)

  round 2 (`P` = template pieces `l<T>` / `f<T>` joined by `/`):
    title T           -> ok T | unmodelled       str.title()
    strip T           -> T                       str.strip()
    vstatus T         -> ok N T | bad | unmodelled   httputil.valid_status(str)
    statusraw T       -> ok H | err:<e> | unmodelled status line of finalize for the status as SET
    urlq T            -> T                       urllib.parse.quote
    cdisp T T T       -> T                       _make_content_disposition(disp, [ascii name], name)
    cquote T          -> T                       http.cookies._quote
    cunq T            -> T                       reader of the quoted form
    morsel T T k=T …  -> T                       Morsel.output() (key, coded value, sorted items)
    dec2047 T         -> ok T | undecodable | unmodelled   decode_TEXT_maybe of one encoded word
    errtpl P T T T T  -> ok H | none             get_error_page with a custom template
    loglinef P k=T …  -> ok T | none             access-log line, custom access_log_format
    logg T            -> T                       one atom with the proposed backslash guard
  `log` / `logline` / `loglinef` follow the LIVE escaping (generated flag `logBackslashGuard`).
-/
open CpModel CpModel.HeaderEnc CpModel.Escape CpModel.HeaderNorm

namespace Drv.C12

def showErr : Err → String
  | .valueError => "err:ValueError"
  | .unpack => "err:unpack"
  | .unicodeEncode => "err:UnicodeEncodeError"
  | .badStatus => "err:badStatus"

def showBytes : Except Err Bytes → String
  | .ok b => "ok " ++ Proto.hex b
  | .error e => showErr e

def showPair : Except Err (Bytes × Bytes) → String
  | .ok (a, b) => "ok " ++ Proto.hex a ++ " " ++ Proto.hex b
  | .error e => showErr e

def showPairs : Except Err (List (Bytes × Bytes)) → String
  | .ok l => "ok" ++ String.join (l.map fun p => " " ++ Proto.hex p.1 ++ " " ++ Proto.hex p.2)
  | .error e => showErr e

def showOptBytes : Option Bytes → String
  | some b => "ok " ++ Proto.hex b
  | none => "none"

def parseAtom (s : String) : Option (Text × Text) :=
  match s.splitOn "=" with
  | [k, v] => do
    let v' ← Proto.untext? v
    pure (k.toList, v')
  | _ => none

def parsePiece (s : String) : Option Piece :=
  match s.toList with
  | 'l' :: rest => (Proto.untext? (String.ofList rest)).map Piece.lit
  | 'f' :: rest => (Proto.untext? (String.ofList rest)).map Piece.field
  | _ => none

def parsePieces (s : String) : Option (List Piece) := (s.splitOn "/").mapM parsePiece

def stepNorm (fs : List String) : String :=
  match fs with
  | ["title", t] =>
    match Proto.untext? t with
    | some s => match title? s with
      | some r => "ok " ++ Proto.text r
      | none => "unmodelled"
    | none => "bad-op"
  | ["strip", t] =>
    match Proto.untext? t with
    | some s => Proto.text (strip s)
    | none => "bad-op"
  | ["vstatus", t] =>
    match Proto.untext? t with
    | some s => match validStatus s with
      | .ok c r => "ok " ++ toString c ++ " " ++ Proto.text r
      | .bad => "bad"
      | .unmodelled => "unmodelled"
    | none => "bad-op"
  | ["statusraw", t] =>
    match Proto.untext? t with
    | some s => match statusLineRaw s with
      | some r => showBytes r
      | none => "unmodelled"
    | none => "bad-op"
  | ["urlq", t] =>
    match Proto.untext? t with
    | some s => Proto.text (urlQuote s)
    | none => "bad-op"
  | ["cdisp", a, b, c] =>
    match Proto.untext? a, Proto.untext? b, Proto.untext? c with
    | some a', some b', some c' => Proto.text (contentDisposition a' b' c')
    | _, _, _ => "bad-op"
  | ["cquote", t] =>
    match Proto.untext? t with
    | some s => Proto.text (cookieQuote s)
    | none => "bad-op"
  | ["cunq", t] =>
    match Proto.untext? t with
    | some s => Proto.text (cookieUnquote s)
    | none => "bad-op"
  | "morsel" :: k :: v :: kvs =>
    match Proto.untext? k, Proto.untext? v, kvs.mapM parseAtom with
    | some k', some v', some attrs => Proto.text (morselOutput k' v' attrs)
    | _, _, _ => "bad-op"
  | ["dec2047", t] =>
    match Proto.untext? t with
    | some s => match decodeWord s with
      | .text r => "ok " ++ Proto.text r
      | .undecodable => "undecodable"
      | .unmodelled => "unmodelled"
    | none => "bad-op"
  | ["errtpl", p, a, b, c, d] =>
    match parsePieces p, Proto.untext? a, Proto.untext? b, Proto.untext? c, Proto.untext? d with
    | some tpl, some a', some b', some c', some d' =>
      showOptBytes ((errorPageWith tpl a' b' c' d').map utf8)
    | _, _, _, _, _ => "bad-op"
  | "loglinef" :: p :: kvs =>
    match parsePieces p, kvs.mapM parseAtom with
    | some fmt, some atoms =>
      match accessLineLive fmt atoms with
      | some l => "ok " ++ Proto.text l
      | none => "none"
    | _, _ => "bad-op"
  | ["logg", t] =>
    match Proto.untext? t with
    | some s => Proto.text (logEscapeGuarded s)
    | none => "bad-op"
  | _ => "bad-op"

def step (line : String) : String :=
  match Proto.fields line with
  | ["item", t] =>
    match Proto.untext? t with
    | some s => showBytes (encodeHeaderItem s)
    | none => "bad-op"
  | ["itemb", h] =>
    match Proto.unhex? h with
    | some b => showBytes (.ok (encodeHeaderItemBytes b))
    | none => "bad-op"
  | ["hdr", k, v] =>
    match Proto.untext? k, Proto.untext? v with
    | some k', some v' => showPair (outputItem k' v')
    | _, _ => "bad-op"
  | ["status", n, t] =>
    match n.toNat?, Proto.untext? t with
    | some c, some s => showBytes (statusLine c s)
    | _, _ => "bad-op"
  | ["statusold", n, t] =>
    match n.toNat?, Proto.untext? t with
    | some c, some s => showBytes (statusLineOld c s)
    | _, _ => "bad-op"
  | ["cookie", t] =>
    match Proto.untext? t with
    | some s => showPair (cookieLine s)
    | none => "bad-op"
  | "cookiesold" :: ts =>
    match ts.mapM Proto.untext? with
    | some ms => showPairs (cookieLinesOld ms)
    | none => "bad-op"
  | ["host", t] =>
    match Proto.untext? t with
    | some s => Proto.text (sanitizeHost s)
    | none => "bad-op"
  | ["hesc", t] =>
    match Proto.untext? t with
    | some s => Proto.text (htmlEscape s)
    | none => "bad-op"
  | ["qattr", t] =>
    match Proto.untext? t with
    | some s => Proto.text (quoteattr s)
    | none => "bad-op"
  | ["errpage", a, b, c, d] =>
    match Proto.untext? a, Proto.untext? b, Proto.untext? c, Proto.untext? d with
    | some a', some b', some c', some d' => showOptBytes (errorPageBytes a' b' c' d')
    | _, _, _, _ => "bad-op"
  | ["errpagefail", a, b, c, d, e] =>
    match Proto.untext? a, Proto.untext? b, Proto.untext? c, Proto.untext? d, Proto.untext? e with
    | some a', some b', some c', some d', some e' =>
      showOptBytes ((errorPageFailed a' b' c' d' e').map utf8)
    | _, _, _, _, _ => "bad-op"
  | "redir" :: n :: ts =>
    match n.toNat?, ts.mapM Proto.untext? with
    | some c, some urls => showOptBytes ((redirectBody c urls).map utf8)
    | _, _ => "bad-op"
  | ["log", t] =>
    match Proto.untext? t with
    | some s => Proto.text (logEscapeLive s)
    | none => "bad-op"
  | "logline" :: kvs =>
    match kvs.mapM parseAtom with
    | some atoms =>
      match accessLineLive (toPieces CpModel.Gen.C12.accessLogFormat) atoms with
      | some l => "ok " ++ Proto.text l
      | none => "none"
    | none => "bad-op"
  | ["b64d", h] =>
    match Proto.unhex? h with
    | some b => showOptBytes (b64dec b)
    | none => "bad-op"
  | fs => stepNorm fs

end Drv.C12

def main : IO Unit := CpModel.Proto.runDriver Drv.C12.step
