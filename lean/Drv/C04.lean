import CpModel.Proto
import CpModel.Multipart
/-!
  Driver for C04 (multipart parser).  One case per line, three fields:

    BOUNDARYHEX MAXRAM BODYHEX

  Output: `ok rest=<n> done=<0|1> G=<name>:<i>+<j>,… P <name> <filename> <ctype> <spilled> <content> P …`
  (hex fields, `N` for None, `-` for empty) or `err:<kind>`.
-/
open CpModel CpModel.Reader CpModel.Multipart

namespace Drv.C04

def optHex : Option Bytes → String
  | none => "N"
  | some b => Proto.hex b

def showErr : Err → String
  | .eofHeaders => "eofHeaders" | .eofBody => "eofBody" | .noCRLF => "noCRLF"
  | .noColon => "noColon" | .badContinuation => "badContinuation" | .fuel => "fuel"

def step (line : String) : String :=
  match Proto.fields line with
  | [b, m, body] =>
    match Proto.unhex? b, m.toNat?, Proto.unhex? body with
    | some b, some m, some body =>
      match processMultipart b m body with
      | .error e => "err:" ++ showErr e
      | .ok (parts, src) =>
        let ps := parts.map fun p =>
          let i := partInfo p.headers
          s!" P {optHex i.name} {optHex i.filename} {Proto.hex i.ctype} {if p.spilled then 1 else 0} {Proto.hex p.content}"
        let g := (formParams (parts.map fun p => partInfo p.headers)).map fun (k, vs) =>
          s!"{Proto.hex k}:" ++ "+".intercalate (vs.map toString)
        s!"ok rest={src.rest.length} done={if src.done then 1 else 0} G={if g.isEmpty then "-" else ",".intercalate g}"
          ++ String.join ps
    | _, _, _ => "bad-op"
  | _ => "bad-op"

end Drv.C04

def main : IO Unit := CpModel.Proto.runDriver Drv.C04.step
