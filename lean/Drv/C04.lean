import CpModel.Proto
import CpModel.MultipartR
import CpModel.MultipartHdr
import CpModel.MultipartN
/-!
  Driver for C04 (multipart parser).  One case per line, three fields:

    BOUNDARYHEX MAXRAM BUFSIZE LENGTH FRAG CONNHEX

  (LENGTH = declared Content-Length or `N`; FRAG as in the C05 driver; CONNHEX = everything the connection
  holds, possibly more than LENGTH.)  The concrete parser `CpModel.MultipartR` is executed.
  Output: `ok off=<stream offset|N> x=0 G=<name>:<i>+<j>,… P <name> <filename> <ctype> <spilled> <content>
  <headers> <filenameX> <charset> <proc> <inFile> <entry> P …` (hex fields, `N` for None, `-` for empty) or `err:<kind>`;
  headers = `<key>:<value>;…` as the part's HeaderMap holds them (title-cased keys); filenameX = the filename after
  `filename*` as code points (`E` = 400); charset = the part's charset parameter; proc = function `Part.process`
  runs; inFile = 1 when the content ends up in `part.file`; entry = `K` kept in parts | `F` file parameter |
  `T<code points>` decoded field | `U` no charset decodes it (400); then the content decoded as a field value
  (`T…` | `U`) whatever the part is (used for `multipart/*` bodies other than form-data).
  Unit lines: `fnstar ENCHEX VALHEX` → `E` | code points; `dec CHARSETHEX|N CONTENTHEX` → `U` | code points;
  `hdr LINEHEX,LINEHEX,…` → `err` | headers as above (the header block folded by `hdrStep`);
  `cd VALUEHEX` → `E` (400) | `<name> <filename code points>` of a Content-Disposition value (`filename*` included).
-/
open CpModel CpModel.Reader CpModel.Multipart CpModel.MultipartR

namespace Drv.C04

def optHex : Option Bytes → String
  | none => "N"
  | some b => Proto.hex b

def showErr : Err → String
  | .eofHeaders => "eofHeaders" | .eofBody => "eofBody" | .noCRLF => "noCRLF"
  | .noColon => "noColon" | .badContinuation => "badContinuation" | .reader413 => "reader413" | .fuel => "fuel"

def showPoints (ps : List Nat) : String :=
  if ps.isEmpty then "-" else ".".intercalate (ps.map toString)

def showHdrs (hs : List (Bytes × Bytes)) : String :=
  if hs.isEmpty then "-" else ";".intercalate ((headersOut hs).map fun (k, v) => Proto.hex k ++ ":" ++ Proto.hex v)

/-- decoded text; `T=` when it is the content read as Latin-1 (pure ASCII content, mostly) -/
def showText (t : List Nat) (content : Bytes) : String :=
  if t = content.map (·.toNat) then "T=" else "T" ++ showPoints t

def showEntry (e : Option FormEntry) (content : Bytes) : String :=
  match e with
  | none => "U"
  | some .kept => "K"
  | some .file => "F"
  | some (.field t) => showText t content

def showPartX (p : RawPart) : String :=
  match partInfoX p.headers with
  | .error _ => s!" {showHdrs p.headers} E N - 0 U U"
  | .ok i =>
    let fn := match i.filename with | none => "N" | some f => showPoints f
    s!" {showHdrs p.headers} {fn} {optHex i.charset} {Proto.hex (partProc i.ctype)} " ++
    s!"{if storedInFile i.filename p.spilled then 1 else 0} {showEntry (formEntry i p.content) p.content} " ++
    (match decodeField (attemptCharsets i.charset) p.content with | none => "U" | some t => showText t p.content)

def foldHdrs : List Bytes → Option Bytes → List (Bytes × Bytes) → Option (List (Bytes × Bytes))
  | [], _, hs => some hs
  | l :: ls, lk, hs =>
    if !endsWith l CRLF then none else     -- `read_headers`: 'MIME requires CRLF terminators'
    match hdrStep l lk hs with
    | .error _ => none
    | .ok (lk', hs') => foldHdrs ls lk' hs'

def stepUnit (fs : List String) : Option String :=
  match fs with
  | ["fnstar", e, v] =>
    match Proto.unhex? e, Proto.unhex? v with
    | some e, some v => some (match unquoteText (codecOf e) v with | none => "E" | some t => showPoints t)
    | _, _ => none
  | ["dec", c, v] =>
    let cs := if c == "N" then some none else (Proto.unhex? c).map some
    match cs, Proto.unhex? v with
    | some cs, some v => some (match decodeField (attemptCharsets cs) v with | none => "U" | some t => showPoints t)
    | _, _ => none
  | ["hdr", ls] =>
    match (if ls == "-" then some [] else (ls.splitOn ",").mapM Proto.unhex?) with
    | some ls => some (match foldHdrs ls none [] with | none => "err" | some hs => showHdrs hs)
    | none => none
  | ["cd", v] =>
    match Proto.unhex? v with
    | some v =>
      some (match partInfoX [(K_CD, v)] with
        | .error _ => "E"
        | .ok i => s!"{optHex i.name} {match i.filename with | none => "N" | some f => showPoints f}")
    | none => none
  | _ => none

def parseNats (s : String) : Option (List Nat) :=
  if s == "-" then some [] else (s.splitOn ",").mapM (·.toNat?)

def step (line : String) : String :=
  match Proto.fields line with
  | [b, m, bufsize, len, frag, conn] =>
    match Proto.unhex? b, m.toNat?, bufsize.toNat?, Proto.optNat? len, parseNats frag, Proto.unhex? conn with
    | some b, some m, some bufsize, some len, some frag, some conn =>
      let cfg : Cfg := { length := len, maxbytes := none, bufsize := bufsize }
      match processMultipartN cfg b m conn frag with
      | .error e => "err:" ++ showErr e
      | .ok (parts, stop, st) =>
        let parts := parts ++ (match stop with
          | .none_ => []
          | .badInit hs => [{ headers := hs, content := [], spilled := false }]
          | .inherited hs => [{ headers := hs, content := [], spilled := false }])
        let ps := parts.map fun p =>
          let i := partInfo p.headers
          s!" P {optHex i.name} {optHex i.filename} {Proto.hex i.ctype} {if p.spilled then 1 else 0} {Proto.hex p.content}" ++
            showPartX p
        let g := (formParams (parts.map fun p => partInfo p.headers)).map fun (k, vs) =>
          s!"{Proto.hex k}:" ++ "+".intercalate (vs.map toString)
        let off := match st with | some s => toString s.off | none => "N"
        s!"ok off={off} x=0 G={if g.isEmpty then "-" else ",".intercalate g}" ++ String.join ps
    | _, _, _, _, _, _ => "bad-op"
  | kw :: rest =>
    if kw == "fnstar" || kw == "dec" || kw == "hdr" || kw == "cd" then (stepUnit (kw :: rest)).getD "bad-op"
    else "bad-op"
  | _ => "bad-op"

end Drv.C04

def main : IO Unit := CpModel.Proto.runDriver Drv.C04.step
