import CpModel.Proto
import CpModel.MultipartR
/-!
  Driver for C04 (multipart parser).  One case per line, three fields:

    BOUNDARYHEX MAXRAM BUFSIZE LENGTH FRAG CONNHEX

  (LENGTH = declared Content-Length or `N`; FRAG as in the C05 driver; CONNHEX = everything the connection
  holds, possibly more than LENGTH.)  The concrete parser `CpModel.MultipartR` is executed.
  Output: `ok off=<stream offset|N> x=0 G=<name>:<i>+<j>,… P <name> <filename> <ctype> <spilled> <content> P …`
  (hex fields, `N` for None, `-` for empty) or `err:<kind>`.
-/
open CpModel CpModel.Reader CpModel.Multipart CpModel.MultipartR

namespace Drv.C04

def optHex : Option Bytes → String
  | none => "N"
  | some b => Proto.hex b

def showErr : Err → String
  | .eofHeaders => "eofHeaders" | .eofBody => "eofBody" | .noCRLF => "noCRLF"
  | .noColon => "noColon" | .badContinuation => "badContinuation" | .reader413 => "reader413" | .fuel => "fuel"

def parseNats (s : String) : Option (List Nat) :=
  if s == "-" then some [] else (s.splitOn ",").mapM (·.toNat?)

def step (line : String) : String :=
  match Proto.fields line with
  | [b, m, bufsize, len, frag, conn] =>
    match Proto.unhex? b, m.toNat?, bufsize.toNat?, Proto.optNat? len, parseNats frag, Proto.unhex? conn with
    | some b, some m, some bufsize, some len, some frag, some conn =>
      let cfg : Cfg := { length := len, maxbytes := none, bufsize := bufsize }
      match processMultipartR cfg b m conn frag with
      | .error e => "err:" ++ showErr e
      | .ok (parts, st) =>
        let ps := parts.map fun p =>
          let i := partInfo p.headers
          s!" P {optHex i.name} {optHex i.filename} {Proto.hex i.ctype} {if p.spilled then 1 else 0} {Proto.hex p.content}"
        let g := (formParams (parts.map fun p => partInfo p.headers)).map fun (k, vs) =>
          s!"{Proto.hex k}:" ++ "+".intercalate (vs.map toString)
        let off := match st with | some s => toString s.off | none => "N"
        s!"ok off={off} x=0 G={if g.isEmpty then "-" else ",".intercalate g}" ++ String.join ps
    | _, _, _, _, _, _ => "bad-op"
  | _ => "bad-op"

end Drv.C04

def main : IO Unit := CpModel.Proto.runDriver Drv.C04.step
