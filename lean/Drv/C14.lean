import CpModel.Proto
import CpModel.SessionStore
/-!
  Driver for C14 (session store).  One history per line, six space-separated fields:

    <ram|file|mem> <timeout> <D:0|1> <G: id,id,…|-> <C> <op;op;…>

  G is the id source (`generate_id` draws, as numbered by the harness; beyond the script the source
  yields n+1, the number of the draw).  C is the cookie configuration
  `name.path.pathHeader.domain.secure.httponly.persistent` (`-` = None).  `mem` is the self-expiring
  store (`memStep`; the listing shown is what the store still returns).  Ops:
    q/<cookie>/<hops>   cookie = n | i<id> | e<id> | p<name>:<i..|e..>,<name>:<i..|e..>,… (the pairs
                        of the Cookie header in order; `presentedOf` picks)
                        hops = - | hop+hop+…
                        hop = r | w.<k>.<v> | k.<k> | c | g | d | x | L | E
                            | A.get.<k> | A.in.<k> | A.sd.<k>.<v> | A.up.<k>.<v>[.<k>.<v>…] | A.pop.<k> | A.del.<k>
    o/<cookieA>/<preA>/<postA>/<cookieB>/<hopsB>    two overlapping requests (`overlap`)
    z/<cookie>/<pre>/<post>    a sweep running while the request is inside its handler (`sweepDuring`)
    a<d>   s | s<id>,<id>,… (listing order of the files)   t<id>.<eof|unp|oth>
  Output: one item per op joined by `;`, item = `<out>@<listing>`,
    out     = R:<resp>  |  O:<respA>|<respB>  |  done  |  aborted
    resp    = <ok|400|500|div>:<cookie id|->:<0|1>:<reads>:L<lens>:C<attrs>:P<presented: n|i<id>|e<id>|->[! = Session.missing][r = Session.regenerated]
    reads   = - | dict/dict/…      dict = ~ | k=v,k=v (sorted)
    lens    = - | n,n,…
    attrs   = - | name.path.maxage.expires.domain.secure.httponly   (`-` = absent; times in seconds from tick 0)
    listing = ~ | entry!entry…     entry = id:g:<exp>:<dict> | id:b:<eof|unp|oth>   (sorted by id)

  A line `mon <cls>.<freq>,<cls>.<freq>,…` runs `loadsMonitor` from no Monitor and prints
  `<number started>;<cls>:<period>,…` (sorted by class).
-/
open CpModel CpModel.SessionStore

namespace Drv.C14

def parseExc (s : String) : Option PExc :=
  if s == "eof" then some .eof else if s == "unp" then some .unpickling
  else if s == "oth" then some .other else none

def showExc : PExc → String
  | .eof => "eof" | .unpickling => "unp" | .other => "oth"

def parsePairs : List String → Option (List (Key × Val))
  | [] => some []
  | [_] => none
  | k :: v :: rest => do pure ((← k.toNat?, ← v.toNat?) :: (← parsePairs rest))

def parseHop (s : String) : Option HOp :=
  match s.splitOn "." with
  | ["L"] => some .len
  | ["E"] => some .raise
  | ["A", "get", k] => do pure (.acc (.get (← k.toNat?)))
  | ["A", "in", k] => do pure (.acc (.contains (← k.toNat?)))
  | ["A", "sd", k, v] => do pure (.acc (.setdefault (← k.toNat?) (← v.toNat?)))
  | "A" :: "up" :: kvs => do pure (.acc (.update (← parsePairs kvs)))
  | ["A", "pop", k] => do pure (.acc (.popStrict (← k.toNat?)))
  | ["A", "del", k] => do pure (.acc (.delitem (← k.toNat?)))
  | ["r"] => some .read
  | ["c"] => some .clear
  | ["g"] => some .regenerate
  | ["d"] => some .delete
  | ["x"] => some .expire
  | ["w", k, v] => do pure (.write (← k.toNat?) (← v.toNat?))
  | ["k", k] => do pure (.delKey (← k.toNat?))
  | _ => none

def parseHops (s : String) : Option (List HOp) :=
  if s == "-" then some [] else (s.splitOn "+").mapM parseHop

def parseCookie1 (s : String) : Option Cookie :=
  if s == "n" then some .none
  else if s.startsWith "i" then (s.drop 1).toString.toNat?.map .id
  else if s.startsWith "e" then (s.drop 1).toString.toNat?.map .escaping
  else none

/-- a single cookie, or the pairs of the Cookie header (then `presentedOf` with the configured name) -/
def parseCookie (name : Nat) (s : String) : Option Cookie :=
  if s.startsWith "p" then do
    let pairs ← ((s.drop 1).toString.splitOn ",").mapM fun t =>
      match t.splitOn ":" with
      | [n, c] => do pure (← n.toNat?, ← parseCookie1 c)
      | _ => none
    pure (presentedOf name pairs)
  else parseCookie1 s

/-- `s` or `s<id>,<id>,…`: the sweep, optionally with the order in which `os.listdir` yields the files -/
def parseSweepOrder (s : String) : Option (List Nat) :=
  if s == "s" then some [] else
  if s.startsWith "s" then ((s.drop 1).toString.splitOn ",").mapM (·.toNat?) else none

/-- an operation of the history: a model `Op`, or two overlapping requests -/
inductive DOp where
  | op (o : Op)
  | overlap (cA : Cookie) (preA postA : List HOp) (cB : Cookie) (hopsB : List HOp)
  /-- a sweep that runs while the request is inside its handler (`sweepDuring`) -/
  | reqSweep (c : Cookie) (pre post : List HOp)

def parseOp (name : Nat) (s : String) : Option DOp :=
  if s == "s" || (s.startsWith "s" && (parseSweepOrder s).isSome) then some (.op .sweep)
  else if s.startsWith "a" then (s.drop 1).toString.toNat?.map fun d => .op (.advance d)
  else if s.startsWith "t" then
    match (s.drop 1).toString.splitOn "." with
    | [i, e] => do pure (.op (.tear (← i.toNat?) (← parseExc e)))
    | _ => none
  else match s.splitOn "/" with
    | ["q", c, hs] => do pure (.op (.req (← parseCookie name c) (← parseHops hs)))
    | ["z", c, pre, post] => do pure (.reqSweep (← parseCookie name c) (← parseHops pre) (← parseHops post))
    | ["o", ca, pre, post, cb, hb] => do
      pure (.overlap (← parseCookie name ca) (← parseHops pre) (← parseHops post)
                     (← parseCookie name cb) (← parseHops hb))
    | _ => none

def parseGen (s : String) : Option (List Nat) :=
  if s == "-" then some [] else (s.splitOn ",").mapM (·.toNat?)

def sortPairs {β : Type} (l : List (Nat × β)) : List (Nat × β) :=
  (l.toArray.qsort fun a b => a.1 < b.1).toList

def showDict (d : Data) : String :=
  if d.isEmpty then "~" else ",".intercalate ((sortPairs d).map fun p => s!"{p.1}={p.2}")

def showStatus : Status → String
  | .ok => "ok" | .err400 => "400" | .err500 => "500" | .diverged => "div"

def showListing (s : Store) : String :=
  if s.isEmpty then "~" else
  "!".intercalate ((sortPairs s).map fun p =>
    match p.2 with
    | .good d e => s!"{p.1}:g:{e}:{showDict d}"
    | .bad e => s!"{p.1}:b:{showExc e}")

def showOptNat : Option Nat → String
  | none => "-"
  | some n => toString n

def showCookieOut (c : CookieOut) : String :=
  let ex := match c.expires with | none => "-" | some x => toString x
  s!"{c.name}.{c.path}.{showOptNat c.maxAge}.{ex}.{showOptNat c.domain}.{if c.secure then 1 else 0}.{if c.httponly then 1 else 0}"

/-- a response; `fin` = the final session object (`none`: the request was refused before it had one) -/
def showCookie : Cookie → String
  | .none => "n"
  | .id c => s!"i{c}"
  | .escaping c => s!"e{c}"

def showResp (cfg : Cfg) (st : St) (c : Cookie) (r : Resp) (fin : Option Sess) : String :=
  let now := st.now
  -- `Session.missing`: an id was presented and the store did not hold it
  let miss := match c.presented with
    | none => false
    | some i => !(has st.store i)
  let ck := match r.cookie with | none => "-" | some i => toString i
  let rd := if r.reads.isEmpty then "-" else "/".intercalate (r.reads.map showDict)
  let ln := match fin with
    | some s => if s.lens.isEmpty then "-" else ",".intercalate (s.lens.map toString)
    | none => "-"
  let attrs := match fin with
    | some s => showCookieOut (finalCookie cfg now s)
    | none => "-"
  let pr := match fin with
    | some s => showCookie c ++ (if miss then "!" else "") ++ (if s.regenerated then "r" else "")
    | none => "-"
  s!"{showStatus r.status}:{ck}:{if r.expired then 1 else 0}:{rd}:L{ln}:C{attrs}:P{pr}"

/-- `overlap`, also handing out A's final session object (same control flow) -/
def overlapS (cfg : Cfg) (st : St) (cA : Cookie) (preA postA : List HOp) (cB : Cookie) (hopsB : List HOp) :
    Option Sess × Option Sess :=
  let finB := fun (st1 : St) => (requestS cfg st1 cB hopsB).2.2
  match initSess cfg st cA with
  | .error _ => (none, finB st)
  | .ok (s0, st0) =>
    match runHops cfg st0 s0 preA with
    | .fail _ st1 s1 => (some s1, finB st1)
    | .ok st1 s1 =>
      match runHops cfg (request cfg st1 cB hopsB).1 s1 postA with
      | .ok _ s2 => (some s2, finB st1)
      | .fail _ _ s2 => (some s2, finB st1)

/-- arrange the store (a permutation) in the order the directory listing yields the files -/
def reorder (s : Store) (ord : List Nat) : Store :=
  let s := sortPairs s
  let first := ord.filterMap fun i => (lookup s i).map fun r => (i, r)
  first ++ s.filter fun p => !ord.contains p.1

def runShow (cfg : Cfg) (mem : Bool) : St → List (DOp × List Nat) → List String
  | _, [] => []
  | st, (dop, ord) :: os =>
    let st := if mem then memView st else st
    let view := fun (s : St) => if mem then (memView s).store else s.store
    match dop with
    | .op o =>
      let st := match o with | .sweep => { st with store := reorder st.store ord } | _ => st
      let r := step cfg st o
      let out := match o, r.2 with
        | .req c hops, .resp rr => "R:" ++ showResp cfg st c rr (requestS cfg st c hops).2.2
        | _, .sweepAborted => "aborted"
        | _, _ => "done"
      (out ++ "@" ++ showListing (view r.1)) :: runShow cfg mem r.1 os
    | .reqSweep c pre post =>
      let r := sweepDuring cfg st c pre post
      ("R:" ++ showResp cfg st c r.2.1 r.2.2 ++ "@" ++ showListing (view r.1)) :: runShow cfg mem r.1 os
    | .overlap cA preA postA cB hopsB =>
      let r := overlap cfg st cA preA postA cB hopsB
      let fins := overlapS cfg st cA preA postA cB hopsB
      ("O:" ++ showResp cfg st cA r.2.1 fins.1 ++ "|" ++ showResp cfg st cB r.2.2 fins.2 ++ "@" ++
        showListing (view r.1)) :: runShow cfg mem r.1 os

def parseOptNat (s : String) : Option (Option Nat) :=
  if s == "-" then some none else s.toNat?.map some

def parseBool (s : String) : Option Bool :=
  if s == "1" then some true else if s == "0" then some false else none

def parseCookieCfg (s : String) : Option CookieCfg :=
  match s.splitOn "." with
  | [n, p, ph, d, sec, ho, pers] => do
    pure { name := ← n.toNat?, path := ← parseOptNat p, pathHeader := ← parseOptNat ph,
           domain := ← parseOptNat d, secure := ← parseBool sec, httponly := ← parseBool ho,
           persistent := ← parseBool pers }
  | _ => none

def monStep (arg : String) : Option String := do
  let ls ← (if arg == "-" then some [] else (arg.splitOn ",").mapM fun t =>
    match t.splitOn "." with
    | [c, f] => do pure (← c.toNat?, ← f.toNat?)
    | _ => none)
  let r := loadsMonitor [] ls
  pure (s!"{r.2};" ++ ",".intercalate ((sortPairs r.1).map fun p => s!"{p.1}:{p.2}"))

def step (line : String) : String :=
  match Proto.fields line with
  | ["mon", arg] => (monStep arg).getD "bad-op"
  | [b, t, d, g, c, ops] =>
    let r : Option String := do
      let file ← (if b == "ram" || b == "mem" then some false else if b == "file" then some true else none)
      let timeout ← t.toNat?
      let df ← parseBool d
      let script ← parseGen g
      let cc ← parseCookieCfg c
      let opl ← (ops.splitOn ";").mapM fun t => do
        let o ← parseOp cc.name t
        pure (o, match o with | .op .sweep => (parseSweepOrder t).getD [] | _ => [])
      let cfg : Cfg := { file := file, timeout := timeout, deleteForgets := df,
                         gen := fun n => script.getD n (n + 1), cookie := cc }
      pure (";".intercalate (runShow cfg (b == "mem") {} opl))
    r.getD "bad-op"
  | _ => "bad-op"

end Drv.C14

def main : IO Unit := CpModel.Proto.runDriver Drv.C14.step
