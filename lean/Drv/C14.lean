import CpModel.Proto
import CpModel.SessionStore
/-!
  Driver for C14 (session store).  One history per line, five space-separated fields:

    <ram|file> <timeout> <D:0|1> <G: id,id,…|-> <op;op;…>

  G is the id source (`generate_id` draws, as numbered by the harness; beyond the script the source
  yields n+1, the number of the draw).  Ops:
    q/<cookie>/<hops>   cookie = n | i<id> | e<id>   hops = - | hop+hop+…
                        hop = r | w.<k>.<v> | k.<k> | c | g | d | x
    a<d>   s | s<id>,<id>,… (listing order of the files)   t<id>.<eof|unp|oth>
  Output: one item per op joined by `;`, item = `<out>@<listing>`,
    out     = R:<ok|400|500|div>:<cookie id|->:<0|1>:<reads>   |  done  |  aborted
    reads   = - | dict/dict/…      dict = ~ | k=v,k=v (sorted)
    listing = ~ | entry!entry…     entry = id:g:<exp>:<dict> | id:b:<eof|unp|oth>   (sorted by id)
-/
open CpModel CpModel.SessionStore

namespace Drv.C14

def parseExc (s : String) : Option PExc :=
  if s == "eof" then some .eof else if s == "unp" then some .unpickling
  else if s == "oth" then some .other else none

def showExc : PExc → String
  | .eof => "eof" | .unpickling => "unp" | .other => "oth"

def parseHop (s : String) : Option HOp :=
  match s.splitOn "." with
  | ["r"] => some .read
  | ["c"] => some .clear
  | ["g"] => some .regenerate
  | ["d"] => some .delete
  | ["x"] => some .expire
  | ["w", k, v] => do pure (.write (← k.toNat?) (← v.toNat?))
  | ["k", k] => do pure (.delKey (← k.toNat?))
  | _ => none

def parseHops (s : String) : Option (List HOp) :=
  if s == "-" then some [] else (s.splitOn "+").mapM parseHop

def parseCookie (s : String) : Option Cookie :=
  if s == "n" then some .none
  else if s.startsWith "i" then (s.drop 1).toString.toNat?.map .id
  else if s.startsWith "e" then (s.drop 1).toString.toNat?.map .escaping
  else none

/-- `s` or `s<id>,<id>,…`: the sweep, optionally with the order in which `os.listdir` yields the files -/
def parseSweepOrder (s : String) : Option (List Nat) :=
  if s == "s" then some [] else
  if s.startsWith "s" then ((s.drop 1).toString.splitOn ",").mapM (·.toNat?) else none

def parseOp (s : String) : Option Op :=
  if s == "s" || (s.startsWith "s" && (parseSweepOrder s).isSome) then some .sweep
  else if s.startsWith "a" then (s.drop 1).toString.toNat?.map .advance
  else if s.startsWith "t" then
    match (s.drop 1).toString.splitOn "." with
    | [i, e] => do pure (.tear (← i.toNat?) (← parseExc e))
    | _ => none
  else match s.splitOn "/" with
    | ["q", c, hs] => do pure (.req (← parseCookie c) (← parseHops hs))
    | _ => none

def parseGen (s : String) : Option (List Nat) :=
  if s == "-" then some [] else (s.splitOn ",").mapM (·.toNat?)

def sortPairs {β : Type} (l : List (Nat × β)) : List (Nat × β) :=
  (l.toArray.qsort fun a b => a.1 < b.1).toList

def showDict (d : Data) : String :=
  if d.isEmpty then "~" else ",".intercalate ((sortPairs d).map fun p => s!"{p.1}={p.2}")

def showStatus : Status → String
  | .ok => "ok" | .err400 => "400" | .err500 => "500" | .diverged => "div"

def showListing (s : Store) : String :=
  if s.isEmpty then "~" else
  "!".intercalate ((sortPairs s).map fun p =>
    match p.2 with
    | .good d e => s!"{p.1}:g:{e}:{showDict d}"
    | .bad e => s!"{p.1}:b:{showExc e}")

def showOut : Out → String
  | .done => "done"
  | .sweepAborted => "aborted"
  | .resp r =>
    let ck := match r.cookie with | none => "-" | some i => toString i
    let rd := if r.reads.isEmpty then "-" else "/".intercalate (r.reads.map showDict)
    s!"R:{showStatus r.status}:{ck}:{if r.expired then 1 else 0}:{rd}"

/-- arrange the store (a permutation) in the order the directory listing yields the files -/
def reorder (s : Store) (ord : List Nat) : Store :=
  let s := sortPairs s
  let first := ord.filterMap fun i => (lookup s i).map fun r => (i, r)
  first ++ s.filter fun p => !ord.contains p.1

def runShow (cfg : Cfg) : St → List (Op × List Nat) → List String
  | _, [] => []
  | st, (o, ord) :: os =>
    let st := match o with | .sweep => { st with store := reorder st.store ord } | _ => st
    let r := step cfg st o
    (showOut r.2 ++ "@" ++ showListing r.1.store) :: runShow cfg r.1 os

def step (line : String) : String :=
  match Proto.fields line with
  | [b, t, d, g, ops] =>
    let r : Option String := do
      let file ← (if b == "ram" then some false else if b == "file" then some true else none)
      let timeout ← t.toNat?
      let df ← (if d == "1" then some true else if d == "0" then some false else none)
      let script ← parseGen g
      let opl ← (ops.splitOn ";").mapM fun t => do
        let o ← parseOp t
        pure (o, match o with | .sweep => (parseSweepOrder t).getD [] | _ => [])
      let cfg : Cfg := { file := file, timeout := timeout, deleteForgets := df,
                         gen := fun n => script.getD n (n + 1) }
      pure (";".intercalate (runShow cfg {} opl))
    r.getD "bad-op"
  | _ => "bad-op"

end Drv.C14

def main : IO Unit := CpModel.Proto.runDriver Drv.C14.step
