import CpModel.Proto
import CpModel.UrlEnc
import CpModel.UrlEncReq
import CpModel.UrlEncBind
import CpModel.Gen.C03Tables
/-!
  Driver for C03 (query-string / form parameters).  One case per line.

    req  <qsenc> <qs-hex> <declared|N> <configured|N> <body-hex|N>
         whole request; declared = Content-Type charset, configured = request.body.attempt_charsets,
         body `N` = no body processed      → `H <params>` (handler called) | `S <code>`
    pqs  <enc> <text>          httputil.parse_query_string      → `P <params>` | `E unicode`
    purl <attempts> <hex>      process_urlencoded                → `P <params>` | `E 400`
    uqb  <hex>                 _cpreqbody.unquote_plus (bytes)   → `<hex>`
    uqt  <enc> <text>          urllib unquote_plus(strict)       → `T <text>` | `E`
    dec  <enc> <hex>           bytes.decode(enc)                 → `T <text>` | `E`
    rec  <hex>                 recode_path_qs on the query       → `T <text>`
    att  <declared|N> <configured|N>   attempt_charsets          → `A <charsets>`

    reqx <uri> <qsenc> <path-hex> <qs-hex> <pb 0|1> <len 0|1> <procs> <ctype> <declared|N> <configured|N> <body-hex> <fields>
         whole request, every body dimension (`handleX`)                 → `H <params>` | `S <code>`
    resp <sig> <nargs> <late> <the twelve reqx fields>   `respond` (late = `~` | `<key-text>:<value-text>` joined by `,`)           → `H <params>` | `S <code>`
    bind <sig> <nargs> <kwargs>   PageHandler.__call__ / test_callable_spec
                                                    → `ok=<0|1> spec=<N|code> dec=<C|code>`
    sel  <procs> <ctype>       Entity.process processor choice     → `u` | `f` | `o` | `p` | `n`
    rcp  <uri> <path-hex> <qs-hex>   recode_path_qs                → `T <text>`
    pparts <old 0|1> <fields>  multipart parameter assembly       → `P <params>` | `E 400`
    tfb  <ctype> <attempts>    RequestBody.__init__ text/* rule    → `A <charsets>`
    patt <declared|N>          Part.attempt_charsets               → `A <charsets>`
    ratt <ctype> <declared|N> <configured|N>   request.body.attempt_charsets → `A <charsets>`

  procs: `D` (the shipped table) | `~` (empty) | `<key-text>:<u|f|o|p>` joined by `,`.
  fields: `~` | `<name-text|N>:<file 0|1>:<value-hex>:<declared charset|N>` joined by `|`.
  sig: `<selfname-text|N>;<self posonly 0|1>;<params>;<posOnly>;<defaults>;<varargs 0|1>;<kwonly>;<varkw 0|1>`,
       params = texts joined by `,` (`~` = none), kwonly = `<name-text>:<has default 0|1>` joined by `,` (`~` = none).
  kwargs: `~` | `<key-text>:<from body 0|1>` joined by `,`.
  charsets: utf8 latin1 ascii utf16 utf16le utf16be unknown, lists joined by `,`.
  text: decimal code points joined by `.`, `-` = empty.  params: `~` = empty dict, else entries
  `<key>:<val>` joined by `|`, val = `s<text>` | `i<nat>` | `l<atom>,<atom>…`, atom = `s<text>` | `i<nat>`.
-/
open CpModel CpModel.UrlEnc

namespace Drv.C03

def parseCs (s : String) : Option Charset :=
  if s == "utf8" then some .utf8 else if s == "latin1" then some .latin1
  else if s == "ascii" then some .ascii else if s == "utf16" then some .utf16
  else if s == "utf16le" then some .utf16le else if s == "utf16be" then some .utf16be
  else if s == "unknown" then some .unknown
  else none

def showCs : Charset → String
  | .utf8 => "utf8" | .latin1 => "latin1" | .ascii => "ascii"
  | .utf16 => "utf16" | .utf16le => "utf16le" | .utf16be => "utf16be" | .unknown => "unknown"

def parseCsList (s : String) : Option (List Charset) :=
  if s == "-" then some [] else (s.splitOn ",").mapM parseCs

def showAtom : Atom → String
  | .str s => "s" ++ Proto.text s
  | .int n => "i" ++ toString n
  | .part n => "p" ++ toString n

def showVal : Val → String
  | .one a => showAtom a
  | .many l => "l" ++ ",".intercalate (l.map showAtom)

def showParams (p : Params) : String :=
  if p.isEmpty then "~" else "|".intercalate (p.map fun kv => Proto.text kv.1 ++ ":" ++ showVal kv.2)

def showOptText : Option Text → String
  | some t => "T " ++ Proto.text t
  | none => "E"

def bool? (s : String) : Option Bool := if s == "1" then some true else if s == "0" then some false else none

def parseProcKind (s : String) : Option Proc :=
  if s == "u" then some .urlencoded else if s == "f" then some .formData else if s == "o" then some .oldMultipart
  else if s == "p" then some .partsOnly else none

def showProc : Proc → String
  | .urlencoded => "u" | .formData => "f" | .oldMultipart => "o" | .partsOnly => "p" | .unread => "n"

def parseProcs (s : String) : Option (List (Text × Proc)) :=
  if s == "D" then some defaultProcessors
  else if s == "~" then some []
  else (s.splitOn ",").mapM fun e =>
    match e.splitOn ":" with
    | [k, p] => do
      let k ← Proto.untext? k
      let p ← parseProcKind p
      pure (k, p)
    | _ => none

def parseField (e : String) : Option Field :=
  match e.splitOn ":" with
  | [n, f, v, a] => do
    let name ← if n == "N" then some none else (Proto.untext? n).map some
    let file ← bool? f
    let value ← Proto.unhex? v
    let d ← if a == "N" then some none else (parseCs a).map some
    pure { name := name, file := file, value := value, attempts := partAttempts d }
  | _ => none

def parseFields (s : String) : Option (List Field) :=
  if s == "~" then some [] else (s.splitOn "|").mapM parseField

def parseNames (s : String) : Option (List Text) :=
  if s == "~" then some [] else (s.splitOn ",").mapM Proto.untext?

def parseFlagged (s : String) : Option (List (Text × Bool)) :=
  if s == "~" then some [] else (s.splitOn ",").mapM fun e =>
    match e.splitOn ":" with
    | [k, b] => do
      let k ← Proto.untext? k
      let b ← bool? b
      pure (k, b)
    | _ => none

def parseLate (s : String) : Option (List (Text × Text)) :=
  if s == "~" then some [] else (s.splitOn ",").mapM fun e =>
    match e.splitOn ":" with
    | [k, v] => do
      let k ← Proto.untext? k
      let v ← Proto.untext? v
      pure (k, v)
    | _ => none

def parseSig (s : String) : Option Sig :=
  match s.splitOn ";" with
  | [sn, sp, ps, po, nd, va, ko, vk] => do
    let sp ← bool? sp
    let self? ← if sn == "N" then some none else (Proto.untext? sn).map fun n => some (n, sp)
    let params ← parseNames ps
    let po ← po.toNat?
    let nd ← nd.toNat?
    let va ← bool? va
    let ko ← parseFlagged ko
    let vk ← bool? vk
    pure { self? := self?, params := params, posOnly := po, defaults := nd, varargs := va, kwonly := ko, varkw := vk }
  | _ => none

def optCs? (s : String) : Option (Option Charset) := if s == "N" then some none else (parseCs s).map some

def optCsList? (s : String) : Option (Option (List Charset)) :=
  if s == "N" then some none else (parseCsList s).map some

def parseReqX (uri enc path qs pb len procs ct decl conf body flds : String) : Option ReqX := do
  let uri ← parseCs uri
  let enc ← parseCs enc
  let path ← Proto.unhex? path
  let qs ← Proto.unhex? qs
  let pb ← bool? pb
  let len ← bool? len
  let procs ← parseProcs procs
  let ct ← Proto.untext? ct
  let d ← optCs? decl
  let c ← optCsList? conf
  let body ← Proto.unhex? body
  let flds ← parseFields flds
  pure { path := path, qs := qs, uriEnc := uri, qsEnc := enc, processBody := pb, hasLength := len,
         processors := procs, ctype := ct, attempts := requestAttempts ct d c, body := body, fields := flds }

def showOutcome : Outcome → String
  | .handler kw => "H " ++ showParams kw
  | .status code => "S " ++ toString code

def step (line : String) : String :=
  match Proto.fields line with
  | ["reqx", uri, enc, path, qs, pb, len, procs, ct, decl, conf, body, flds] =>
    match parseReqX uri enc path qs pb len procs ct decl conf body flds with
    | some r => showOutcome (handleX r)
    | none => "bad-op"
  | ["resp", sig, nargs, late, uri, enc, path, qs, pb, len, procs, ct, decl, conf, body, flds] =>
    match parseSig sig, nargs.toNat?, parseLate late, parseReqX uri enc path qs pb len procs ct decl conf body flds with
    | some s, some n, some l, some r => showOutcome (respond Gen.C03.specChecksBoundArg r s n l)
    | _, _, _, _ => "bad-op"
  | ["bind", sig, nargs, kwargs] =>
    match parseSig sig, nargs.toNat?, parseFlagged kwargs with
    | some s, some n, some kw =>
      let ok := pyCallOk s n (kw.map (·.1))
      let spec := match specCheck Gen.C03.specChecksBoundArg s n kw with
        | some c => toString c
        | none => "N"
      let dec := match bindDecision Gen.C03.specChecksBoundArg s n kw with
        | .call => "C"
        | .status c => toString c
      "ok=" ++ (if ok then "1" else "0") ++ " spec=" ++ spec ++ " dec=" ++ dec
    | _, _, _ => "bad-op"
  | ["sel", procs, ct] =>
    match parseProcs procs, Proto.untext? ct with
    | some t, some c => showProc (selectProc t c)
    | _, _ => "bad-op"
  | ["rcp", uri, path, qs] =>
    match parseCs uri, Proto.unhex? path, Proto.unhex? qs with
    | some e, some p, some q => "T " ++ Proto.text (recodePathQs e p q)
    | _, _, _ => "bad-op"
  | ["pparts", old, flds] =>
    match bool? old, parseFields flds with
    | some o, some f =>
      match partsParams o 0 f [] with
      | some p => "P " ++ showParams p
      | none => "E 400"
    | _, _ => "bad-op"
  | ["tfb", ct, att] =>
    match Proto.untext? ct, parseCsList att with
    | some c, some a => "A " ++ ",".intercalate ((textFallback c a).map showCs)
    | _, _ => "bad-op"
  | ["ratt", ct, d, c] =>
    match Proto.untext? ct, optCs? d, optCsList? c with
    | some t, some dd, some cc => "A " ++ ",".intercalate ((requestAttempts t dd cc).map showCs)
    | _, _, _ => "bad-op"
  | ["patt", d] =>
    let d? : Option (Option Charset) := if d == "N" then some none else (parseCs d).map some
    match d? with
    | some dd => "A " ++ ",".intercalate ((partAttempts dd).map showCs)
    | none => "bad-op"
  | ["req", enc, qs, decl, conf, body] =>
    let d? : Option (Option Charset) := if decl == "N" then some none else (parseCs decl).map some
    let c? : Option (Option (List Charset)) := if conf == "N" then some none else (parseCsList conf).map some
    let b? : Option (Option Bytes) := if body == "N" then some none else (Proto.unhex? body).map some
    match parseCs enc, Proto.unhex? qs, d?, c?, b? with
    | some e, some q, some d, some c, some b =>
      match handle { qs := q, qsEnc := e, body := b.map fun bytes => (attemptCharsets d c, bytes) } with
      | .handler kw => "H " ++ showParams kw
      | .status code => "S " ++ toString code
    | _, _, _, _, _ => "bad-op"
  | ["pqs", enc, t] =>
    match parseCs enc, Proto.untext? t with
    | some e, some s =>
      match parseQueryString (decode e) s with
      | some p => "P " ++ showParams p
      | none => "E unicode"
    | _, _ => "bad-op"
  | ["purl", att, body] =>
    match parseCsList att, Proto.unhex? body with
    | some a, some b =>
      match processUrlencoded (a.map decode) b with
      | some p => "P " ++ showParams p
      | none => "E 400"
    | _, _ => "bad-op"
  | ["uqb", h] =>
    match Proto.unhex? h with
    | some b => Proto.hex (unquotePlusBytes b)
    | none => "bad-op"
  | ["uqt", enc, t] =>
    match parseCs enc, Proto.untext? t with
    | some e, some s => showOptText (unquotePlusText (decode e) s)
    | _, _ => "bad-op"
  | ["dec", enc, h] =>
    match parseCs enc, Proto.unhex? h with
    | some e, some b => showOptText (decode e b)
    | _, _ => "bad-op"
  | ["rec", h] =>
    match Proto.unhex? h with
    | some b => "T " ++ Proto.text (recodeQS b)
    | none => "bad-op"
  | ["att", d, c] =>
    let d? : Option (Option Charset) := if d == "N" then some none else (parseCs d).map some
    let c? : Option (Option (List Charset)) := if c == "N" then some none else (parseCsList c).map some
    match d?, c? with
    | some dd, some cc => "A " ++ ",".intercalate ((attemptCharsets dd cc).map showCs)
    | _, _ => "bad-op"
  | _ => "bad-op"

end Drv.C03

def main : IO Unit := CpModel.Proto.runDriver Drv.C03.step
