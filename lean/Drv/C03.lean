import CpModel.Proto
import CpModel.UrlEnc
/-!
  Driver for C03 (query-string / form parameters).  One case per line.

    req  <qsenc> <qs-hex> <declared|N> <configured|N> <body-hex|N>
         whole request; declared = Content-Type charset, configured = request.body.attempt_charsets,
         body `N` = no body processed      → `H <params>` (handler called) | `S <code>`
    pqs  <enc> <text>          httputil.parse_query_string      → `P <params>` | `E unicode`
    purl <attempts> <hex>      process_urlencoded                → `P <params>` | `E 400`
    uqb  <hex>                 _cpreqbody.unquote_plus (bytes)   → `<hex>`
    uqt  <enc> <text>          urllib unquote_plus(strict)       → `T <text>` | `E`
    dec  <enc> <hex>           bytes.decode(enc)                 → `T <text>` | `E`
    rec  <hex>                 recode_path_qs on the query       → `T <text>`
    att  <declared|N> <configured|N>   attempt_charsets          → `A <charsets>`

  charsets: utf8 latin1 ascii utf16 utf16le utf16be unknown, lists joined by `,`.
  text: decimal code points joined by `.`, `-` = empty.  params: `~` = empty dict, else entries
  `<key>:<val>` joined by `|`, val = `s<text>` | `i<nat>` | `l<atom>,<atom>…`, atom = `s<text>` | `i<nat>`.
-/
open CpModel CpModel.UrlEnc

namespace Drv.C03

def parseCs (s : String) : Option Charset :=
  if s == "utf8" then some .utf8 else if s == "latin1" then some .latin1
  else if s == "ascii" then some .ascii else if s == "utf16" then some .utf16
  else if s == "utf16le" then some .utf16le else if s == "utf16be" then some .utf16be
  else if s == "unknown" then some .unknown
  else none

def showCs : Charset → String
  | .utf8 => "utf8" | .latin1 => "latin1" | .ascii => "ascii"
  | .utf16 => "utf16" | .utf16le => "utf16le" | .utf16be => "utf16be" | .unknown => "unknown"

def parseCsList (s : String) : Option (List Charset) :=
  if s == "-" then some [] else (s.splitOn ",").mapM parseCs

def showAtom : Atom → String
  | .str s => "s" ++ Proto.text s
  | .int n => "i" ++ toString n

def showVal : Val → String
  | .one a => showAtom a
  | .many l => "l" ++ ",".intercalate (l.map showAtom)

def showParams (p : Params) : String :=
  if p.isEmpty then "~" else "|".intercalate (p.map fun kv => Proto.text kv.1 ++ ":" ++ showVal kv.2)

def showOptText : Option Text → String
  | some t => "T " ++ Proto.text t
  | none => "E"

def step (line : String) : String :=
  match Proto.fields line with
  | ["req", enc, qs, decl, conf, body] =>
    let d? : Option (Option Charset) := if decl == "N" then some none else (parseCs decl).map some
    let c? : Option (Option (List Charset)) := if conf == "N" then some none else (parseCsList conf).map some
    let b? : Option (Option Bytes) := if body == "N" then some none else (Proto.unhex? body).map some
    match parseCs enc, Proto.unhex? qs, d?, c?, b? with
    | some e, some q, some d, some c, some b =>
      match handle { qs := q, qsEnc := e, body := b.map fun bytes => (attemptCharsets d c, bytes) } with
      | .handler kw => "H " ++ showParams kw
      | .status code => "S " ++ toString code
    | _, _, _, _, _ => "bad-op"
  | ["pqs", enc, t] =>
    match parseCs enc, Proto.untext? t with
    | some e, some s =>
      match parseQueryString (decode e) s with
      | some p => "P " ++ showParams p
      | none => "E unicode"
    | _, _ => "bad-op"
  | ["purl", att, body] =>
    match parseCsList att, Proto.unhex? body with
    | some a, some b =>
      match processUrlencoded (a.map decode) b with
      | some p => "P " ++ showParams p
      | none => "E 400"
    | _, _ => "bad-op"
  | ["uqb", h] =>
    match Proto.unhex? h with
    | some b => Proto.hex (unquotePlusBytes b)
    | none => "bad-op"
  | ["uqt", enc, t] =>
    match parseCs enc, Proto.untext? t with
    | some e, some s => showOptText (unquotePlusText (decode e) s)
    | _, _ => "bad-op"
  | ["dec", enc, h] =>
    match parseCs enc, Proto.unhex? h with
    | some e, some b => showOptText (decode e b)
    | _, _ => "bad-op"
  | ["rec", h] =>
    match Proto.unhex? h with
    | some b => "T " ++ Proto.text (recodeQS b)
    | none => "bad-op"
  | ["att", d, c] =>
    let d? : Option (Option Charset) := if d == "N" then some none else (parseCs d).map some
    let c? : Option (Option (List Charset)) := if c == "N" then some none else (parseCsList c).map some
    match d?, c? with
    | some dd, some cc => "A " ++ ",".intercalate ((attemptCharsets dd cc).map showCs)
    | _, _ => "bad-op"
  | _ => "bad-op"

end Drv.C03

def main : IO Unit := CpModel.Proto.runDriver Drv.C03.step
