import CpModel.Proto
import CpModel.Dispatch
import CpModel.DispatchFn
import CpModel.DispatchIO
/-!
  Driver for C02 (default dispatcher / method dispatcher).  One case per line:

    <D|M> <method> <root> <noneattrs> <nodes> <sections> <path>

  (encodings: see `CpModel/DispatchIO.lean`).  Output:

    D:  <outcome> I=<T|F|N> P=<params>
    M:  <outcome> A=<N | _ | name,name…> P=<params>
  params = `_` | name~value,…   (request.params updates by popargs, in order; a later one wins)
  outcome = `H <id> <args>` | `NF` | `NA` | `E:<err>`

  `find_handler` over an arbitrary dispatcher function (`CpModel.DispatchFn`), the function given as the table
  of the calls the real `_cp_dispatch` objects were seen to make during this very request:

    F <D|M> <method> <root> <noneattrs> <nodes> <sections> <path> <table>
    table = `-` | entry;entry;…      entry = <dispatcher id>|<list before>|<ret: id | N | R (raised)>|<list after>|<params>
    list  = `-` | name+name+…        params = `-` | name~value,…
  Output as for D / M, followed by ` V=<iternames when the chosen trail entry was appended>` (`N` without handler).

  Path rewriting in front of the dispatcher:

    S <apps: =text,text,…> <SCRIPT_NAME> <PATH_INFO>   ->  `N` | `<script name> <path info>`     (Tree.__call__)
    T <apps> <path>                                        ->  `N` | `<script name>`                 (Tree.script_name)
    V <domains: - | text~text,…> <domain> <path_info>      ->  `<path>`                              (VirtualHost)
    X <path_info>                                          ->  `<path>`                              (XMLRPCDispatcher)
-/
open CpModel CpModel.Dispatch CpModel.DispatchFn CpModel.DispatchIO

namespace Drv.C02

def showOB : Option Bool → String
  | none => "N" | some true => "T" | some false => "F"

def parseNames : String → Option (List Name) := parseList "+" parseName

def parseParam (s : String) : Option (Name × Name) :=
  match s.splitOn "~" with
  | [k, v] => do pure (← parseName k, ← parseName v)
  | _ => none

def parseEntry (s : String) : Option (NodeId × List Name × Except Err DispOut) :=
  match s.splitOn "|" with
  | [d, before, ret, after, params] => do
    let did ← d.toNat?
    let b ← parseNames before
    if ret == "R" then pure (did, b, .error .dispatchRaised)
    else
      let r ← parseOptId ret
      let a ← parseNames after
      let ps ← parseList "," parseParam params
      pure (did, b, .ok ⟨r, a, ps⟩)
  | _ => none

def showRest (r : Option (List Name)) : String :=
  match r with
  | none => "N"
  | some l => showNames l

def stepF (kind meth root na nodes secs path table : String) : String :=
  match parseApp root na nodes secs, Proto.untext? path, parseName meth, parseList ";" parseEntry table with
  | some app, some p, some m, some tbl =>
    let sem := semTable tbl
    let fr := findHandlerF sem translate app p
    let rest : Option (List Name) := match fr with
      | .ok r => (r.found.bind fun f => r.rests[f.idx]?)
      | .error _ => none
    let ps := showParams (paramsF sem translate app (segments p))
    if kind == "D" then
      let ii := match fr with
        | .ok r => r.isIndex
        | .error _ => none
      s!"{showOutcome (dispatchF sem translate app p)} I={showOB ii} P={ps} V={showRest rest}"
    else if kind == "M" then
      let r := methodDispatchF sem translate app p m
      let a := match r.allow with
        | none => "N"
        | some l => showNames l
      s!"{showOutcome r.outcome} A={a} P={ps} V={showRest rest}"
    else "bad-op"
  | _, _, _, _ => "bad-op"

/-- `=` followed by the comma-separated texts (`=` alone: the empty list; `=-`: the list holding `''`) -/
def parseTexts (s : String) : Option (List (List Char)) :=
  if !s.startsWith "=" then none
  else
    let r := (s.drop 1).toString
    if r.isEmpty then some [] else (r.splitOn ",").mapM Proto.untext?

def parseDomain (s : String) : Option (List Char × List Char) :=
  match s.splitOn "~" with
  | [k, v] => do pure (← Proto.untext? k, ← Proto.untext? v)
  | _ => none

def step (line : String) : String :=
  match Proto.fields line with
  | ["F", kind, meth, root, na, nodes, secs, path, table] => stepF kind meth root na nodes secs path table
  | ["S", apps, sn0, pi] =>
    match parseTexts apps, Proto.untext? sn0, Proto.untext? pi with
    | some a, some s0, some p =>
      match treeRoute a s0 p with
      | none => "N"
      | some (sn, rest) => s!"{Proto.text sn} {Proto.text rest}"
    | _, _, _ => "bad-op"
  | ["T", apps, path] =>
    match parseTexts apps, Proto.untext? path with
    | some a, some p =>
      match scriptName a p with
      | none => "N"
      | some sn => Proto.text sn
    | _, _ => "bad-op"
  | ["V", domains, domain, pi] =>
    match parseList "," parseDomain domains, Proto.untext? domain, Proto.untext? pi with
    | some ds, some d, some p => Proto.text (vhostPath ds d p)
    | _, _, _ => "bad-op"
  | ["X", pi] =>
    match Proto.untext? pi with
    | some p => Proto.text (patchedPath p)
    | none => "bad-op"
  | [kind, meth, root, na, nodes, secs, path] =>
    match parseApp root na nodes secs, Proto.untext? path, parseName meth with
    | some app, some p, some m =>
      if kind == "D" then
        let ii := match findHandler app p with
          | .ok r => r.isIndex
          | .error _ => none
        s!"{showOutcome (dispatch app p)} I={showOB ii} P={showParams (paramsOf translate app (segments p))}"
      else if kind == "M" then
        let r := methodDispatch app p m
        let a := match r.allow with
          | none => "N"
          | some l => showNames l
        s!"{showOutcome r.outcome} A={a} P={showParams (paramsOf translate app (segments p))}"
      else "bad-op"
    | _, _, _ => "bad-op"
  | _ => "bad-op"

end Drv.C02

def main : IO Unit := CpModel.Proto.runDriver Drv.C02.step
