import CpModel.Proto
import CpModel.Dispatch
import CpModel.DispatchIO
/-!
  Driver for C02 (default dispatcher / method dispatcher).  One case per line:

    <D|M> <method> <root> <noneattrs> <nodes> <sections> <path>

  (encodings: see `CpModel/DispatchIO.lean`).  Output:

    D:  <outcome> I=<T|F|N> P=<params>
    M:  <outcome> A=<N | _ | name,name…> P=<params>
  params = `_` | name~value,…   (request.params updates by popargs, in order; a later one wins)
  outcome = `H <id> <args>` | `NF` | `NA` | `E:<err>`
-/
open CpModel CpModel.Dispatch CpModel.DispatchIO

namespace Drv.C02

def showOB : Option Bool → String
  | none => "N" | some true => "T" | some false => "F"

def step (line : String) : String :=
  match Proto.fields line with
  | [kind, meth, root, na, nodes, secs, path] =>
    match parseApp root na nodes secs, Proto.untext? path, parseName meth with
    | some app, some p, some m =>
      if kind == "D" then
        let ii := match findHandler app p with
          | .ok r => r.isIndex
          | .error _ => none
        s!"{showOutcome (dispatch app p)} I={showOB ii} P={showParams (paramsOf translate app (segments p))}"
      else if kind == "M" then
        let r := methodDispatch app p m
        let a := match r.allow with
          | none => "N"
          | some l => showNames l
        s!"{showOutcome r.outcome} A={a} P={showParams (paramsOf translate app (segments p))}"
      else "bad-op"
    | _, _, _ => "bad-op"
  | _ => "bad-op"

end Drv.C02

def main : IO Unit := CpModel.Proto.runDriver Drv.C02.step
