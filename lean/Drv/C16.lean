import CpModel.Proto
import CpModel.Ranges
import CpModel.Validators
import CpModel.CondFlow
import CpModel.CondElements
import CpModel.HttpDate
import CpProofs.C16MultipartScan
/-!
  Driver for C16.  One case per line.

    R <len> <hdr>                       get_ranges(hdr, len)
        hdr = N (absent) | - (empty) | code points joined by '.'
        -> N | [] | a:b,a:b,…           (start:stop slices)

    E <hdr>                             elementsSimple(hdr)  -> texts joined by '/'   ([] when empty)

    F <hdr>                             elementsFull(hdr) = [str(x) for x in header_elements('If-Match', hdr)],
                                        in the order of the real list  -> texts joined by '/'   ([] when empty)

    M <boundary> <ctype> <hex>          the reference receiver of CpProofs.C16MultipartScan (cut at CRLF "--" boundary, read
                                        each piece's headers, payload = rest of the piece) run on a REAL response body
        -> p:a-b/t:<len>:<adler32>;…  |  undecodable

    D <t>                               httpDate(t) = httputil.HTTPDate(t), integer seconds  -> text

    Q kind method proto known base callSince etagsOn autotags hEtag autoTag lastmod im inm ims ius range content boundary ctype stream script emptyTag ifRange
        (answered by `CondFlow.respondX`; `callSince` only feeds the legacy field of `Req`)
        stream = 0|1 (response.stream)   script = - | letters B (set body) S (validate_since) E (validate_etags())
        A (validate_etags(autotags=True)): what a `gen` handler does, in order   emptyTag = text ('"md5(b'')"')
        kind = file|gen   method = GET|HEAD|…   proto = 10|11   known = 0|1 (entity length known)   base = status   flags = 0|1
        hEtag, lastmod, ims, ius, range = N | text;  autoTag = text
        im, inm = N | text: the raw If-Match / If-None-Match header values; the driver runs `elementsFull` on them
        content = x<hex> | f<len>.<a>.<b>   (byte i = (a*i+b) % 251)
        boundary = N | text (the boundary the real response chose), ctype = text: when the body is
        multipart the exact body bytes are rendered and `:m<len>:<adler32>` is appended to body=
        -> s=<status> cr=<N|*/t|a-b/t> cl=<N|n> etag=<N|text> body=<empty|err|b:<len>:<adler32>|p:a-b/t:<len>:<adler32>;…>
-/
open CpModel CpModel.Ranges CpModel.Validators CpModel.CondFlow CpModel.CondElements

namespace Drv.C16

def optText? (s : String) : Option (Option Text) :=
  if s == "N" then some none else (Proto.untext? s).map some

def showOptText : Option Text → String
  | none => "N"
  | some t => Proto.text t

def textList? (s : String) : Option (List Text) :=
  if s == "[]" then some [] else (s.splitOn "/").mapM Proto.untext?

def showTextList (l : List Text) : String :=
  if l.isEmpty then "[]" else "/".intercalate (l.map Proto.text)

def flag? (s : String) : Option Bool :=
  if s == "0" then some false else if s == "1" then some true else none

def content? (s : String) : Option Bytes :=
  if s.startsWith "x" then Proto.unhex? (s.drop 1).toString
  else if s.startsWith "f" then
    match ((s.drop 1).toString.splitOn ".").mapM (·.toNat?) with
    | some [len, a, b] => some ((List.range len).map fun i => UInt8.ofNat ((a * i + b) % 251))
    | _ => none
  else none

def adler32 (b : Bytes) : Nat :=
  let (a, s) := b.foldl (fun (p : Nat × Nat) x =>
    let a := (p.1 + x.toNat) % 65521
    (a, (p.2 + a) % 65521)) (1, 0)
  s * 65536 + a

def showRanges : Option (List (Nat × Nat)) → String
  | none => "N"
  | some [] => "[]"
  | some rs => ",".intercalate (rs.map fun (a, b) => s!"{a}:{b}")

def showCR : Option (Option (Nat × Nat) × Nat) → String
  | none => "N"
  | some (none, t) => s!"*/{t}"
  | some (some (a, b), t) => s!"{a}-{b}/{t}"

def showBody : Body → String
  | .empty => "empty"
  | .errorPage => "err"
  | .bytes b => s!"b:{b.length}:{adler32 b}"
  | .parts ps =>
    "p:" ++ ";".intercalate (ps.map fun p => s!"{p.first}-{p.last}/{p.total}:{p.body.length}:{adler32 p.body}")

def showResp (x : Resp) : String :=
  s!"s={x.status} cr={showCR x.contentRange} cl={Proto.showOptNat x.contentLength} etag={showOptText x.etag} body={showBody x.body}"

def step? : Char → Option Step
  | 'B' => some .body
  | 'S' => some .since
  | 'E' => some (.etags false)
  | 'A' => some (.etags true)
  | _ => none

def script? (s : String) : Option (List Step) :=
  if s == "-" then some [] else s.toList.mapM step?

def parseQ : List String → Option (ReqX × Option Text × Text)
  | [kind, method, proto, known, base, callSince, etagsOn, autotags, hEtag, autoTag, lastmod, im, inm,
     ims, ius, range, content, boundary, ctype, stream, script, emptyTag, ifRange] => do
    let ifRange ← optText? ifRange
    let stream ← flag? stream
    let script ← script? script
    let emptyTag ← Proto.untext? emptyTag
    let boundary ← optText? boundary
    let ctype ← Proto.untext? ctype
    let kind ← if kind == "file" then some Kind.file else if kind == "gen" then some Kind.gen else none
    let proto11 ← if proto == "11" then some true else if proto == "10" then some false else none
    let base ← base.toNat?
    pure (⟨{
      kind := kind
      getHead := method == "GET" || method == "HEAD"
      isHead := method == "HEAD"
      proto11 := proto11
      lenKnown := ← flag? known
      baseStatus := base
      callSince := ← flag? callSince
      etagsOn := ← flag? etagsOn
      autotags := ← flag? autotags
      handlerEtag := ← optText? hEtag
      autoTag := ← Proto.untext? autoTag
      lastmod := ← optText? lastmod
      im := elementsFull (← optText? im)
      inm := elementsFull (← optText? inm)
      ims := ← optText? ims
      ius := ← optText? ius
      range := ← optText? range
      content := ← content? content }, stream, script, emptyTag, ifRange⟩, boundary, ctype)
  | _ => none

def step (line : String) : String :=
  match Proto.fields line with
  | ["R", len, hdr] =>
    match len.toNat?, optText? hdr with
    | some n, some h => showRanges (getRanges h n)
    | _, _ => "bad-op"
  | ["E", hdr] =>
    match optText? hdr with
    | some h => showTextList (elementsSimple h)
    | none => "bad-op"
  | ["F", hdr] =>
    match optText? hdr with
    | some h => showTextList (elementsFull h)
    | none => "bad-op"
  | ["M", boundary, ctype, body] =>
    match Proto.untext? boundary, Proto.untext? ctype, Proto.unhex? body with
    | some b, some c, some bytes =>
      match (CpProofs.C16.scanMultipart (ascii b) bytes).bind fun ps => ps.mapM (CpProofs.C16.parsePiece (ascii c)) with
      | some ps => showBody (.parts ps)
      | none => "undecodable"
    | _, _, _ => "bad-op"
  | ["D", t] =>
    match t.toNat? with
    | some n => Proto.text (HttpDate.httpDate n)
    | none => "bad-op"
  | "Q" :: rest =>
    match parseQ rest with
    | some (r, boundary, ctype) =>
      let x := respondX r
      let extra := match x.body, boundary with
        | .parts ps, some b =>
          let m := renderMultipart (ascii b) (ascii ctype) ps
          s!":m{m.length}:{adler32 m}"
        | _, _ => ""
      showResp x ++ extra
    | none => "bad-op"
  | _ => "bad-op"

end Drv.C16

def main : IO Unit := CpModel.Proto.runDriver Drv.C16.step
