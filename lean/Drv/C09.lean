import CpModel.HookAttachProto
/-!
  Driver for C09 (hook order, fail-safe hooks, end hooks exactly once).  One case per line in, one canonical
  result line out: fault plans (protocol in `CpModel/PipelineProto.lean`) and the attachment model's
  `attach` / `heap` cases (protocol in `CpModel/HookAttachProto.lean`).
-/
def main : IO Unit := CpModel.Proto.runDriver CpModel.HookAttachProto.step
