import CpModel.PipelineProto
/-!
  Driver for C09 (hook order, fail-safe hooks, end hooks exactly once).  One fault plan per line in,
  one canonical result line out; the protocol is documented in `CpModel/PipelineProto.lean`.
-/
def main : IO Unit := CpModel.Proto.runDriver CpModel.PipelineProto.step
