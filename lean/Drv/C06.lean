import CpModel.Proto
import CpModel.Finalize
/-!
  Driver for C06 (response framing).  One case per line, space-separated fields:

    <tools> <page> <ct> <hcl> <hstream> <st> <body> <probe> <ext> <req>;<req>;…      hcl = N | <n> (handler's own Content-Length)

  tools   letters of e(ncode) g(zip) t(etags) c(aching) x(expires) f(latten) s(tream) b(= error_response raises), or `-`
  page    `pt` (default template) | `pc:<hex>` (error_page.default returns these bytes) | `pi:<hex>/<hex>…` (… an iterator)
  ct      html | plain | json | octet
  st      - | s<code> | e<code> | r<code> | x | i
  body    <K>:<chunk>,<chunk>…   K in B S N L G F X Y;  chunk = b<hex> | t<cp.cp…> | n<hex>/<hex>… | r
  probe   - | <prio>:<act>:<once>   act = e<code> | r<code> | x | w<hex> (rewrite body) | s<code>
  body    may be `shape|shape|…`: the value on the 1st, 2nd, … handler invocation
  ext     `-` or comma-separated: rh<n> (tools.response_headers sets Content-Length n) | acc (tools.accept) |
          jin (tools.json_in) | noslash (tools.trailing_slash off) | sess (tools.sessions) | av (tools.autovary) |
          sf<hex> (tools.staticfile on a file with this content) | erc<code>:<hex> (custom error_response) |
          erx<cp.cp…> (tools.xmlrpc: fault text) | err<code> (error_response raises HTTPRedirect) |
          xp1 | xp2 | xp3 (tools.expires: secs=0 force / secs=60 no force / secs=0 no force) | mp<B>:<C>:<L> (multipart texts: boundary / content-type /
          file-length digits, so that the multipart byte count is exact)
  body    kind R = an XML-RPC method whose marshalled result is the text chunk; nested chunk leaves: <hex> | T<cp.cp…> | R
  req     <method>,<ae>,<inm>,<im>,<ac>,<ranges>,<cc>,<t>,<proto>,<ims>,<accept>,<noslash>,<entity>
          ranges = N | E | a-b/a-b…;  cc = - | maxage<n> | nocache | pragma | nostore | badmaxage;
          t = logical time (s) of the request; proto = 10 | 11; ims / accept / noslash = 0 | 1;
          entity = - | ok | bad | nolen

  Output: one record per request joined by ` | `:
    S=<code> CL=<n|N|None|?> D=<n> E=<clean|nonbytes|raised> ST=<0|1> CA=<0|1> CE=<0|1> CT=<base>/<charset|-> SRC=<src> GZ=<0|1>
  Page texts the model does not know are stand-ins; SRC/GZ tell the harness which numbers are exact.
-/
open CpModel CpModel.Finalize

namespace Drv.C06

/-- number of decimal digits -/
def digits (n : Nat) : Nat := (toString n).length

/-- `mp` = (boundary length, content-type length, file length) for the multipart texts of `_serve_fileobj`:
    part header `--B\r\nContent-type: C\r\nContent-range: bytes a-(z-1)/L\r\n\r\n`, closing `--B--` + `\r\n` -/
def pages (custom : Option Body) (mp : Nat × Nat × Nat) : Pages :=
  { tmpl := fun _ => List.replicate 700 84
    custom := custom
    redir := fun _ => List.replicate 90 82
    partHead := fun a z => List.replicate (2 + mp.1 + 16 + mp.2.1 + 23 + digits a + 1 + digits (z - 1) + 1 +
                                           digits mp.2.2 + 4) 80
    partTail := List.replicate (mp.1 + 6) 81
    bare := List.replicate 35 66
    z := fun b => List.replicate 10 90 ++ b ++ List.replicate 8 90
    zHead := List.replicate 10 90 }

def parseTools (s : String) : Option Tools :=
  if s == "-" then some {} else
  s.toList.foldlM (fun (t : Tools) c =>
    match c with
    | 'e' => some { t with encode := true }
    | 'g' => some { t with gzip := true }
    | 't' => some { t with etags := true }
    | 'c' => some { t with caching := true }
    | 'x' => some { t with expires := true }
    | 'f' => some { t with flatten := true }
    | 's' => some { t with stream := true }
    | 'b' => some { t with errFails := true }
    | 'j' => some { t with jsonOut := true }
    | _ => none) {}

def parsePage (s : String) : Option (Option Body) :=
  if s == "pt" then some none
  else if s.startsWith "pc:" then (Proto.unhex? (s.drop 3).toString).map (fun b => some (bytesBody b))
  else if s.startsWith "pi:" then
    (((s.drop 3).toString.splitOn "/").mapM fun x => Proto.unhex? (if x == "" then "-" else x)).map
      (fun bs => some ⟨.iter, bs.map Chunk.bytes⟩)
  else none

def parseCt (s : String) : Option CtBase :=
  if s == "html" then some .textHtml else if s == "plain" then some .textPlain
  else if s == "json" then some .appJson else if s == "octet" then some .octet
  else if s == "xml" then some .textXml else none

def parseBool (s : String) : Option Bool :=
  if s == "0" then some false else if s == "1" then some true else none

def parseSt (s : String) : Option HStatus :=
  if s == "-" then some .unset
  else if s == "x" then some .raiseExc
  else if s == "i" then some (.set 999)
  else if s.startsWith "s" then (s.drop 1).toString.toNat?.map .set
  else if s.startsWith "e" then (s.drop 1).toString.toNat?.map .raiseError
  else if s.startsWith "r" then (s.drop 1).toString.toNat?.map .raiseRedirect
  else none

def parseProbe (s : String) : Option (Option (Nat × ProbeAct × Bool)) :=
  if s == "-" then some none else
  match s.splitOn ":" with
  | [prio, act, once] => do
    let p ← prio.toNat?
    let o ← parseBool once
    let a ← (if act == "x" then some (ProbeAct.raise .exc)
             else if act.startsWith "e" then (act.drop 1).toString.toNat?.map (fun c => ProbeAct.raise (.httpError c))
             else if act.startsWith "r" then (act.drop 1).toString.toNat?.map (fun c => ProbeAct.raise (.redirect c))
             else if act.startsWith "s" then (act.drop 1).toString.toNat?.map ProbeAct.setStatus
             else if act.startsWith "w" then
               (Proto.unhex? (let t := (act.drop 1).toString; if t == "" then "-" else t)).map ProbeAct.rewrite
             else none)
    pure (some (p, a, o))
  | _ => none

/-- a leaf of a nested iterator: `<hex>` bytes | `T<cp.cp…>` text | `R` raises -/
def parseLeaf (x : String) : Option Leaf :=
  if x == "R" then some .raise
  else if x.startsWith "T" then (Proto.untext? (let t := (x.drop 1).toString; if t == "" then "-" else t)).map .text
  else (Proto.unhex? (if x == "" then "-" else x)).map .bytes

def parseChunk (s : String) : Option Chunk :=
  if s == "r" then some .raise
  else if s.startsWith "b" then (Proto.unhex? (let t := (s.drop 1).toString; if t == "" then "-" else t)).map .bytes
  else if s.startsWith "t" then (Proto.untext? (let t := (s.drop 1).toString; if t == "" then "-" else t)).map .text
  else if s.startsWith "n" then
    let t := (s.drop 1).toString
    if t == "" then some (.nested []) else
    ((t.splitOn "/").mapM parseLeaf).map .nested
  else none

def parseShape1 (s : String) : Option Shape :=
  match s.splitOn ":" with
  | [k, rest] => do
    let cs ← ((rest.splitOn ",").filter (· ≠ "")).mapM parseChunk
    let firstBytes : Bytes := match cs with | .bytes b :: _ => b | _ => []
    let firstText : List Char := match cs with | .text t :: _ => t | _ => []
    if k == "B" then pure (.bytesV firstBytes)
    else if k == "S" then pure (.strV firstText)
    else if k == "N" then pure .noneV
    else if k == "L" then pure (.listV cs)
    else if k == "G" then pure (.genV cs)
    else if k == "F" then pure (.fileV (concat cs))
    else if k == "X" then pure (.staticV (concat cs))
    else if k == "Y" then pure (.fileObjV (concat cs))
    else if k == "R" then pure (.xmlrpcV firstText)
    else none
  | _ => none

/-- `shape|shape|…`: the value on the 1st, 2nd, … invocation of the handler -/
def parseShapes (s : String) : Option (Shape × List Shape) :=
  match (s.splitOn "|").mapM parseShape1 with
  | some (x :: xs) => some (x, xs)
  | _ => none

def parseCC (s : String) : Option CC :=
  if s == "-" then some .none else if s == "nocache" then some .noCache
  else if s == "pragma" then some .pragma else if s == "nostore" then some .noStore
  else if s == "badmaxage" then some .badMaxAge
  else if s.startsWith "maxage" then (s.drop 6).toString.toNat?.map .maxAge
  else none

def parseMethod (s : String) : Option Method :=
  if s == "GET" then some .get else if s == "HEAD" then some .head
  else if s == "POST" then some .post else none

def parseAe (s : String) : Option AEnc :=
  if s == "-" then some .absent else if s == "gzip" then some .gzip
  else if s == "identity" then some .identity else if s == "gzipq0" then some .gzipq0
  else if s == "other" then some .other else if s == "idq0" then some .idq0 else none

def parseCond (s : String) : Option Cond :=
  if s == "-" then some .absent else if s == "star" then some .star
  else if s == "match" then some .matching else if s == "other" then some .other else none

/-- Accept-Charset class -> (charsets tried in order, no-header flag) -/
def parseAc (s : String) : Option (List Charset × Bool) :=
  if s == "-" then some ([.utf8], true)
  else if s == "utf8" then some ([.utf8], false)
  else if s == "star" then some ([.utf8], false)
  else if s == "latin1" then some ([.latin1], false)
  else if s == "ascii" then some ([.ascii, .latin1], false)
  else if s == "none" then some ([], false)
  else if s == "l1u8" then some ([.latin1, .utf8], false)
  else none

def parsePair (p : String) : Option (Nat × Nat) :=
  match p.splitOn "-" with
  | [a, b] =>
    match a.toNat?, b.toNat? with
    | some x, some y => some (x, y)
    | _, _ => none
  | _ => none

def parseRanges (s : String) : Option (Option (List (Nat × Nat))) :=
  if s == "N" then some none
  else if s == "E" then some (some [])
  else ((s.splitOn "/").mapM parsePair).map some

def parseEntity (s : String) : Option Entity :=
  if s == "-" then some .none else if s == "ok" then some .jsonOk
  else if s == "bad" then some .jsonBad else if s == "nolen" then some .noLength else none

def parseReq (s : String) : Option Req :=
  match s.splitOn "," with
  | [m, ae, inm, im, ac, rg, cc, t, proto, ims, acc, ns, ent] => do
    let (cs, d) ← parseAc ac
    let h10 ← (if proto == "10" then some true else if proto == "11" then some false else none)
    pure { method := ← parseMethod m, ae := ← parseAe ae, inm := ← parseCond inm, im := ← parseCond im,
           charsets := cs, dfltOnly := d, ranges := ← parseRanges rg, cc := ← parseCC cc, now := ← t.toNat?,
           http10 := h10, ims := ← parseBool ims, acceptOk := ← parseBool acc, noSlash := ← parseBool ns,
           entity := ← parseEntity ent }
  | _ => none

/-- the extension field: more tools, and the multipart text lengths -/
def parseExt1 (acc : Tools × (Nat × Nat × Nat)) (x : String) : Option (Tools × (Nat × Nat × Nat)) :=
  let (t, mp) := acc
  if x == "acc" then some ({ t with accept := true }, mp)
  else if x == "jin" then some ({ t with jsonIn := true }, mp)
  else if x == "noslash" then some ({ t with noSlashTool := true }, mp)
  else if x == "sess" then some ({ t with sessions := true }, mp)
  else if x == "av" then some ({ t with autovary := true }, mp)
  else if x == "xp1" then some ({ t with expiresCfg := .zeroForce }, mp)
  else if x == "xp2" then some ({ t with expiresCfg := .secs60 }, mp)
  else if x == "xp3" then some ({ t with expiresCfg := .zero }, mp)
  else if x.startsWith "err" then (x.drop 3).toString.toNat?.map fun c => ({ t with errResp := .redirect c }, mp)
  else if x.startsWith "rh" then (x.drop 2).toString.toNat?.map fun n => ({ t with rhCL := some n }, mp)
  else if x.startsWith "sf" then
    (Proto.unhex? (let y := (x.drop 2).toString; if y == "" then "-" else y)).map fun b =>
      ({ t with staticTool := some b }, mp)
  else if x.startsWith "erc" then
    match (x.drop 3).toString.splitOn ":" with
    | [c, hx] => do
      let code ← c.toNat?
      let b ← Proto.unhex? (if hx == "" then "-" else hx)
      pure ({ t with errResp := .custom code b }, mp)
    | _ => none
  else if x.startsWith "erx" then
    (Proto.untext? (let y := (x.drop 3).toString; if y == "" then "-" else y)).map fun cs =>
      ({ t with errResp := .xmlrpc cs }, mp)
  else if x.startsWith "mp" then
    match (x.drop 2).toString.splitOn ":" with
    | [a, b, c] => do pure (t, (← a.toNat?, ← b.toNat?, ← c.toNat?))
    | _ => none
  else none

def parseExt (t : Tools) (s : String) : Option (Tools × (Nat × Nat × Nat)) :=
  if s == "-" then some (t, (36, 10, 2)) else
  (s.splitOn ",").foldlM parseExt1 (t, (36, 10, 2))

def showCl : Option HVal → String
  | none => "N"
  | some (.nat n) => toString n
  | some .pyNone => "None"
  | _ => "?"

def showCt : Option HVal → String
  | some (.ctype b cs) =>
    (match b with | .textHtml => "html" | .textPlain => "plain" | .appJson => "json" | .octet => "octet"
                  | .multipart => "multipart" | .textXml => "xml") ++ "/" ++
    (match cs with | none => "-" | some .utf8 => "utf8" | some .latin1 => "latin1" | some .ascii => "ascii")
  | none => "N"
  | _ => "?"

def showEnd : End → String
  | .clean => "clean" | .nonBytes => "nonbytes" | .raised => "raised"

def showSrc : Src → String
  | .handler => "handler" | .tmplPage => "tmpl" | .customPage => "custom" | .redirPage => "redir"
  | .multipart => "multipart" | .bare => "bare" | .none => "none"

def b01 (b : Bool) : String := if b then "1" else "0"

def showObs (o : Obs) : String :=
  s!"S={o.code} CL={showCl o.cl} D={o.delivered.length} E={showEnd o.ending} ST={b01 o.stream} " ++
  s!"CA={b01 o.cached} CE={b01 o.gzip} CT={showCt o.ctype} SRC={showSrc o.src} GZ={b01 o.gz}"

def step (line : String) : String :=
  match Proto.fields line with
  | [tools, page, ct, hcl, hstream, st, body, probe, ext, reqs] =>
    let r : Option String := do
      let t0 ← parseTools tools
      let (t1, mp) ← parseExt t0 ext
      let t : Tools := { t1 with probe := ← parseProbe probe }
      let pg ← parsePage page
      let (sh, later) ← parseShapes body
      let h : Handler := { shape := sh, later := later, st := ← parseSt st, ct := ← parseCt ct,
                           setCL := ← Proto.optNat? hcl, setStream := ← parseBool hstream }
      let rqs ← (reqs.splitOn ";").mapM parseReq
      let obs := serveAll (pages pg mp) ⟨h, t⟩ rqs none 0
      pure (" | ".intercalate (obs.map showObs))
    r.getD "bad-op"
  | _ => "bad-op"

end Drv.C06

def main : IO Unit := CpModel.Proto.runDriver Drv.C06.step
