import CpModel.Proto
import CpModel.Monitor
import CpModel.BlockWait
import CpModel.ThreadMgr
import CpModel.C20Admit
/-!
  Driver for C20.  One case per line; the output is the snapshot of the shared state before the
  first step and after every step of the schedule, joined by `|`.  A step of a thread that the
  model considers not schedulable is flagged with a leading `-` (otherwise `+`).

    M <asIs|fixed> <freq 0|1> <daemon 0|1> <calls: start,stop,graceful | -> <sched: c,w1,w2,… | ->
        snapshot  C=<ctl label>;T=<N|0|1>;R=<returned calls>;W=<label>:<running>:<invocations>/…
    B <calls: stop,start,graceful,exit,restart | -> <sched: m,x,… | ->
        snapshot  m=<label>;x=<label>;S=<state>;X=<execv>;P=<'main' publications>;D=<execv done>
    T <asIs|fixed> <nstops> <scripts: ar/aar/… (a = acquire, r = release) | -> <sched: s,t1,t2,… | ->
        snapshot  s=<label>;r=<label>,…;D=<ident:index,… in slot order>;J=<#publications>
        and after the last snapshot `#` + the journal `+i@tN` (start_thread i by tN), `-i@tN`, `-i@s`
-/
open CpModel

namespace Drv.C20

def joinOr (sep : String) (xs : List String) : String := if xs.isEmpty then "-" else sep.intercalate xs
def splitList (s : String) (sep : String := ",") : List String := if s == "-" then [] else s.splitOn sep
def b01 (b : Bool) : String := if b then "1" else "0"

/-! ### M -/
section M
open CpModel.Monitor

def parseMode (s : String) : Option Mode :=
  if s == "asIs" then some .asIs else if s == "fixed" then some .fixed else none

def parseCall (s : String) : Option Call :=
  if s == "start" then some .start else if s == "stop" then some .stop
  else if s == "graceful" then some .graceful else none

def parseTid (s : String) : Option Tid :=
  if s == "c" then some .ctl
  else if s == "k" then some .ctl2      -- the second controller (overlapping calls)
  else if s.startsWith "w" then
    match (s.drop 1).toString.toNat? with
    | some (n + 1) => some (.w n)
    | _ => none
  else if s.startsWith "x" then       -- a turn of worker n in which the callback raises
    match (s.drop 1).toString.toNat? with
    | some (n + 1) => some (.wx n)
    | _ => none
  else none

def cLabel : CPc → String
  | .st2 => "Monitor.start+2" | .st3 => "Monitor.start+3" | .st4 => "Monitor.start+4"
  | .st5a => "Monitor.start+5" | .st6 => "Monitor.start+6" | .st5b => "Monitor.start+5"
  | .st7 => "Monitor.start+7" | .st8 => "Monitor.start+8"
  | .bs7 => "BackgroundTask.start+7" | .bs8 => "BackgroundTask.start+8"
  | .st9 => "Monitor.start+9" | .st11 => "Monitor.start+11"
  | .sp2 => "Monitor.stop+2" | .sp3a => "Monitor.stop+3" | .sp4 => "Monitor.stop+4"
  | .sp3b => "Monitor.stop+3" | .sp6 => "Monitor.stop+6" | .sp7 => "Monitor.stop+7"
  | .sp8 => "Monitor.stop+8" | .cn2 => "BackgroundTask.cancel+2" | .sp9 => "Monitor.stop+9"
  | .sp10 => "Monitor.stop+10" | .sp11 => "Monitor.stop+11" | .sp11w => "Monitor.stop+11!"
  | .sp12 => "Monitor.stop+12" | .sp13 => "Monitor.stop+13"
  | .gr2 => "Monitor.graceful+2" | .gr3 => "Monitor.graceful+3"
  | .done => "done" | .crashed => "crashed"

def wLabel (m : Mode) (pc : WPc) : String :=
  let off (a f : Nat) : String := s!"BackgroundTask.run+{match m with | .asIs => a | .fixed => f}"
  match pc with
  | .created => "created" | .held => "BackgroundTask.run+0" | .arm => "BackgroundTask.run+2"
  | .loop => off 3 2 | .slp => off 4 3 | .chk => off 5 4 | .ret => off 6 5
  | .try_ => off 7 6 | .call => off 8 7 | .done => "done"

def snapM (p : Params) (c : Cfg) : String :=
  let t := match c.thread with
    | none => "N"
    | some k => b01 (c.ws k).running
  let ws := (List.range c.nw).filterMap fun i =>
    let w := c.ws i
    if w.pc = .created then none else some s!"{wLabel p.mode w.pc}:{b01 w.running}:{w.calls}"
  s!"C={cLabel c.cpc};T={t};R={c.nret};W={joinOr "/" ws}"

def runM (p : Params) (c : Cfg) (sched : List Tid) : List String :=
  match sched with
  | [] => []
  | t :: ts =>
    let e := enabled c t
    let c' := step p c t
    ((if e then "+" else "-") ++ snapM p c') :: runM p c' ts

def caseM (f : List String) : Option String :=
  match f with
  | [mode, freq, daemon, calls, sched] => do
    let m ← parseMode mode
    let cs ← (splitList calls).mapM parseCall
    let sc ← (splitList sched).mapM parseTid
    let p : Params := { mode := m, freqPos := freq == "1", daemon := daemon == "1" }
    let c := Monitor.init cs
    pure ("|".intercalate (("+" ++ snapM p c) :: runM p c sc))
  | _ => none
end M

/-! ### B -/
section B
open CpModel.BlockWait

def parseBCall (s : String) : Option BCall :=
  if s == "stop" then some .stop else if s == "start" then some .start
  else if s == "graceful" then some .graceful else if s == "exit" then some .exit
  else if s == "restart" then some .restart else none

def parseBTid (s : String) : Option BlockWait.Tid :=
  if s == "m" then some .main else if s == "x" then some .x
  else if s.startsWith "f" then
    match (s.drop 1).toString.toNat? with
    | some (n + 1) => some (.f n)
    | _ => none
  else none

/-- foreign threads of the application: `n` = non-daemon, `d` = daemon; `-` = none -/
def parseForeign (s : String) : Option (List Bool) :=
  if s == "-" then some [] else
  s.toList.mapM fun ch => if ch == 'n' then some false else if ch == 'd' then some true else none

def mLabel : MPc → String
  | .b10 => "Bus.block+10" | .b11 => "Bus.block+11" | .w2 => "Bus.wait+2" | .w4 => "Bus.wait+4"
  | .w5 => "Bus.wait+5" | .w6 => "Bus.wait+6" | .tail => "tail" | .done => "done"
  | .jn => "join-loop" | .jw => "join!" | .ex => "if-execv" | .dx => "do-execv"

def xLabel : XPc → String
  | .s2 => "Bus.stop+2" | .s3 => "Bus.stop+3" | .s4 => "Bus.stop+4" | .s5 => "Bus.stop+5"
  | .s6 => "Bus.stop+6"
  | .a2 => "Bus.start+2" | .a4 => "Bus.start+4" | .a5 => "Bus.start+5" | .a6 => "Bus.start+6"
  | .a7 => "Bus.start+7" | .a8 => "Bus.start+8" | .a9 => "Bus.start+9"
  | .g2 => "Bus.graceful+2" | .g3 => "Bus.graceful+3"
  | .r7 => "Bus.restart+7" | .r8 => "Bus.restart+8"
  | .e2 => "Bus.exit+2" | .e3 => "Bus.exit+3" | .e4 => "Bus.exit+4" | .e5 => "Bus.exit+5"
  | .e7 => "Bus.exit+7" | .e8 => "Bus.exit+8" | .e9 => "Bus.exit+9" | .e12 => "Bus.exit+12"
  | .e20 => "Bus.exit+20"
  | .done => "done" | .osExit => "osexit"

def showSt : St → String
  | .stopped => "STOPPED" | .starting => "STARTING" | .started => "STARTED"
  | .stopping => "STOPPING" | .exiting => "EXITING"

def snapB (c : BlockWait.Cfg) : String :=
  s!"m={mLabel c.mpc};x={xLabel c.xpc};S={showSt c.state};X={b01 c.execv};P={c.pubs};D={b01 c.execvDone}"

def runB (c : BlockWait.Cfg) (sched : List BlockWait.Tid) : List String :=
  match sched with
  | [] => []
  | t :: ts =>
    let e := BlockWait.enabled c t
    let c' := BlockWait.step c t
    ((if e then "+" else "-") ++ snapB c') :: runB c' ts

def caseB (f : List String) : Option String :=
  match f with
  | [calls, sched] => do
    let cs ← (splitList calls).mapM parseBCall
    let sc ← (splitList sched).mapM parseBTid
    let c := BlockWait.init .started cs
    pure ("|".intercalate (("+" ++ snapB c) :: runB c sc))
  | _ => none
end B

/-! ### T -/
section T
open CpModel.ThreadMgr

def parseTMode (s : String) : Option ThreadMgr.Mode :=
  if s == "asIs" then some .asIs else if s == "fixed" then some .fixed else none

def parseOps (s : String) : Option (List ROp) :=
  s.toList.mapM fun ch => if ch == 'a' then some ROp.acq else if ch == 'r' then some ROp.rel else none

def parseTTid (s : String) : Option ThreadMgr.Tid :=
  if s == "s" then some .s
  else if s.startsWith "t" then
    match (s.drop 1).toString.toNat? with
    | some (n + 1) => some (.r n)
    | _ => none
  else none

def rLabel : RPc → String
  | .a6 => "ThreadManager.acquire_thread+6" | .a7 => "ThreadManager.acquire_thread+7"
  | .a10 => "ThreadManager.acquire_thread+10" | .a11 => "ThreadManager.acquire_thread+11"
  | .a12 => "ThreadManager.acquire_thread+12"
  | .r2 => "ThreadManager.release_thread+2" | .r3 => "ThreadManager.release_thread+3"
  | .r4 => "ThreadManager.release_thread+4" | .r5 => "ThreadManager.release_thread+5"
  | .done => "done"

def sLabel : SPc → String
  | .s2 => "ThreadManager.stop+2" | .s3 => "ThreadManager.stop+3" | .s4 => "ThreadManager.stop+4"
  | .f2 => "ThreadManager.stop+2" | .f5 => "ThreadManager.stop+5" | .f6 => "ThreadManager.stop+6"
  | .f7 => "ThreadManager.stop+7" | .done => "done" | .rterr => "rterr"

def showEv : Ev → String
  | .start i t => s!"+{i}@t{t + 1}"
  | .stop i (some t) => s!"-{i}@t{t + 1}"
  | .stop i none => s!"-{i}@s"

def snapT (c : ThreadMgr.Cfg) : String :=
  let rs := (List.range c.nr).map fun t => rLabel (c.rs t).pc
  let d := (keys c).map fun k => s!"t{k + 1}:{match c.d k with | some v => toString v | none => "?"}"
  s!"s={sLabel c.spc};r={joinOr "," rs};D={joinOr "," d};J={c.journal.length}"

def runT (m : ThreadMgr.Mode) (c : ThreadMgr.Cfg) (sched : List ThreadMgr.Tid) :
    List String × ThreadMgr.Cfg :=
  match sched with
  | [] => ([], c)
  | t :: ts =>
    let e := ThreadMgr.enabled c t
    let c' := ThreadMgr.step m c t
    let (rest, cf) := runT m c' ts
    (((if e then "+" else "-") ++ snapT c') :: rest, cf)

def caseT (f : List String) : Option String :=
  match f with
  | [mode, nstops, scripts, sched] => do
    let m ← parseTMode mode
    let n ← nstops.toNat?
    let ss ← (splitList scripts "/").mapM parseOps
    let sc ← (splitList sched).mapM parseTTid
    let c := ThreadMgr.init m ss n
    let (snaps, cf) := runT m c sc
    pure ("|".intercalate (("+" ++ snapT c) :: snaps) ++ "#" ++ joinOr "," (cf.journal.map showEv))
  | _ => none
end T


/-! ### trace inclusion modulo stuttering (`CpModel/C20Admit.lean`)

    AM <asIs|fixed> <freq 0|1> <daemon 0|1> <calls | -> <trace>
    AB <calls | -> <trace>
    AT <asIs|fixed> <nstops> <scripts | -> <trace>
        trace = ~<obs0>|<tid>[~<obs>]|<tid>[~<obs>]|…   (an item without `~obs`: observation unchanged)
        answer: `ok`, or `no <index of the first turn the model cannot follow> <tid> have=<observations
        the model can show after that turn>` -/
section A
open CpModel.C20Admit

/-- `(obs0, [(tid, obs)])` -/
def parseTrace {τ ο : Type} (ptid : String → Option τ) (pobs : String → Option ο) (s : String) :
    Option (ο × List (τ × ο)) :=
  match s.splitOn "|" with
  | [] => none
  | first :: rest =>
    if !first.startsWith "~" then none else
    match pobs (first.drop 1).toString with
    | none => none
    | some o0 =>
      let rec go : List String → ο → List (τ × ο) → Option (List (τ × ο))
        | [], _, acc => some acc.reverse
        | it :: r, last, acc =>
          match it.splitOn "~" with
          | [t] => (ptid t).bind fun t' => go r last ((t', last) :: acc)
          | [t, o] => (ptid t).bind fun t' => (pobs o).bind fun o' => go r o' ((t', o') :: acc)
          | _ => none
      (go rest o0 []).map fun tr => (o0, tr)

def answer {σ τ ο : Type} [DecidableEq ο] (step : σ → τ → σ) (en : σ → τ → Bool) (obs : σ → ο)
    (render : ο → String) (key : σ → String)
    (showTid : τ → String) (c0 : σ) (o0 : ο) (tr : List (τ × ο)) : String :=
  if admitsInit step en obs key FUEL c0 o0 tr then "ok" else
  let S0 := if obs c0 = o0 then [c0] else []
  if S0.isEmpty then s!"no init have={render (obs c0)}" else
  match failAt step en obs (pruneBy key) FUEL S0 tr 0 with
  | none => "no ?"
  | some (i, S) =>
    match tr[i]? with
    | none => "no ?"
    | some (t, _) =>
      let have_ := pruneBy id ((S.flatMap fun c => chain step en t FUEL c).map fun c => render (obs c))
      s!"no {i} {showTid t} states={S.length} have={",".intercalate (have_.take 6)}"

/-- `T=<N|k>;R=<n>;X=<0|1>;W=<sss:n>/…`; anything else (e.g. `T=?`) is not an observation of the model -/
def parseObsM (s : String) : Option Monitor.Obs :=
  match s.splitOn ";" with
  | [t, r, x, w, r2, x2] => do
    let nret2 ← if r2.startsWith "R2=" then (r2.drop 3).toString.toNat? else none
    let crashed2 ← if x2 == "X2=0" then some false else if x2 == "X2=1" then some true else none
    let tv := (t.drop 2).toString
    let thread ← if !t.startsWith "T=" then none else if tv == "N" then some none else tv.toNat?.map some
    let nret ← if r.startsWith "R=" then (r.drop 2).toString.toNat? else none
    let crashed ← if x == "X=0" then some false else if x == "X=1" then some true else none
    let wv := (w.drop 2).toString
    let ws ← if !w.startsWith "W=" then none else
      (if wv.isEmpty then [] else wv.splitOn "/").mapM fun it =>
        match it.splitOn ":" with
        | [f, n] =>
          match f.toList, n.toNat? with
          | [a, b, c, d], some k =>
            if [a, b, c, d].all (fun ch => ch == '0' || ch == '1') then
              some ({ started := a == '1', running := b == '1', done := c == '1', crashed := d == '1',
                      calls := k } : Monitor.ObsW)
            else none
          | _, _ => none
        | _ => none
    pure { thread := thread, nret := nret, crashed := crashed, ws := ws, nret2 := nret2, crashed2 := crashed2 }
  | _ => none

def showTidM : Monitor.Tid → String
  | .ctl => "c" | .ctl2 => "k" | .w i => s!"w{i + 1}" | .wx i => s!"x{i + 1}"

def admitM (f : List String) : Option String :=
  match f with
  | [mode, freq, daemon, calls, calls2, trace] => do
    let m ← parseMode mode
    let cs ← (splitList calls).mapM parseCall
    let cs2 ← (splitList calls2).mapM parseCall
    let (o0, tr) ← parseTrace parseTid parseObsM trace
    let p : Monitor.Params := { mode := m, freqPos := freq == "1", daemon := daemon == "1" }
    pure (answer (Monitor.step p) Monitor.enabled Monitor.obs Monitor.Obs.render Monitor.keyStr showTidM
      (Monitor.init2 cs cs2) o0 tr)
  | _ => none

def showTidB : BlockWait.Tid → String
  | .main => "m" | .x => "x" | .f k => s!"f{k + 1}"

def admitB (f : List String) : Option String :=
  match f with
  | [calls, foreign, trace] => do
    let cs ← (splitList calls).mapM parseBCall
    let fr ← parseForeign foreign
    let (o0, tr) ← parseTrace parseBTid some trace
    pure (answer BlockWait.step BlockWait.enabled (BlockWait.obsStr cs.length) id BlockWait.keyStr showTidB
      (BlockWait.init .started cs fr) o0 tr)
  | _ => none

def showTidT : ThreadMgr.Tid → String
  | .s => "s" | .r i => s!"t{i + 1}"

def admitT (f : List String) : Option String :=
  match f with
  | [mode, nstops, scripts, trace] => do
    let m ← parseTMode mode
    let n ← nstops.toNat?
    let ss ← (splitList scripts "/").mapM parseOps
    let (o0, tr) ← parseTrace parseTTid some trace
    pure (answer (ThreadMgr.step m) ThreadMgr.enabled (ThreadMgr.obsStr (ss.map List.length) n) id
      ThreadMgr.keyStr showTidT (ThreadMgr.init m ss n) o0 tr)
  | _ => none
end A

def step (line : String) : String :=
  match Proto.fields line with
  | "M" :: rest => (caseM rest).getD "bad-op"
  | "B" :: rest => (caseB rest).getD "bad-op"
  | "T" :: rest => (caseT rest).getD "bad-op"
  | "AM" :: rest => (admitM rest).getD "bad-op"
  | "AB" :: rest => (admitB rest).getD "bad-op"
  | "AT" :: rest => (admitT rest).getD "bad-op"
  | _ => "bad-op"

end Drv.C20

def main : IO Unit := CpModel.Proto.runDriver Drv.C20.step
