import CpModel.Proto
import CpModel.Monitor
import CpModel.BlockWait
import CpModel.ThreadMgr
import CpModel.C20Admit
/-!
  Driver for C20: trace inclusion modulo stuttering.  One case per line: the scenario and the
  observable trace recorded from the real threads (driven at shared-state accesses and primitive
  calls); the answer says whether the model admits the trace (see `CpModel/C20Admit.lean`).
  Nothing here depends on source lines of the code under test.
-/
open CpModel

namespace Drv.C20

def joinOr (sep : String) (xs : List String) : String := if xs.isEmpty then "-" else sep.intercalate xs
def splitList (s : String) (sep : String := ",") : List String := if s == "-" then [] else s.splitOn sep
def b01 (b : Bool) : String := if b then "1" else "0"

/-! ### M -/
section M
open CpModel.Monitor

def parseMode (s : String) : Option Mode :=
  if s == "asIs" then some .asIs else if s == "fixed" then some .fixed else none

def parseCall (s : String) : Option Call :=
  if s == "start" then some .start else if s == "stop" then some .stop
  else if s == "graceful" then some .graceful else none

def parseTid (s : String) : Option Tid :=
  if s == "c" then some .ctl
  else if s == "k" then some .ctl2      -- the second controller (overlapping calls)
  else if s.startsWith "w" then
    match (s.drop 1).toString.toNat? with
    | some (n + 1) => some (.w n)
    | _ => none
  else if s.startsWith "x" then       -- a turn of worker n in which the callback raises
    match (s.drop 1).toString.toNat? with
    | some (n + 1) => some (.wx n)
    | _ => none
  else none

end M

/-! ### B -/
section B
open CpModel.BlockWait

def parseBCall (s : String) : Option BCall :=
  if s == "stop" then some .stop else if s == "start" then some .start
  else if s == "graceful" then some .graceful else if s == "exit" then some .exit
  else if s == "restart" then some .restart else none

def parseBTid (s : String) : Option BlockWait.Tid :=
  if s == "m" then some .main else if s == "x" then some .x
  else if s.startsWith "f" then
    match (s.drop 1).toString.toNat? with
    | some (n + 1) => some (.f n)
    | _ => none
  else none

/-- foreign threads of the application: `n` = non-daemon, `d` = daemon; `-` = none -/
def parseForeign (s : String) : Option (List Bool) :=
  if s == "-" then some [] else
  s.toList.mapM fun ch => if ch == 'n' then some false else if ch == 'd' then some true else none

end B

/-! ### T -/
section T
open CpModel.ThreadMgr

def parseTMode (s : String) : Option ThreadMgr.Mode :=
  if s == "asIs" then some .asIs else if s == "fixed" then some .fixed else none

def parseOps (s : String) : Option (List ROp) :=
  s.toList.mapM fun ch => if ch == 'a' then some ROp.acq else if ch == 'r' then some ROp.rel else none

def parseTTid (s : String) : Option ThreadMgr.Tid :=
  if s == "s" then some .s
  else if s.startsWith "t" then
    match (s.drop 1).toString.toNat? with
    | some (n + 1) => some (.r n)
    | _ => none
  else none

end T


/-! ### trace inclusion modulo stuttering (`CpModel/C20Admit.lean`)

    AM <asIs|fixed> <freq 0|1> <daemon 0|1> <calls | -> <trace>
    AB <calls | -> <trace>
    AT <asIs|fixed> <nstops> <scripts | -> <trace>
        trace = ~<obs0>|<tid>[~<obs>]|<tid>[~<obs>]|…   (an item without `~obs`: observation unchanged)
        answer: `ok`, or `no <index of the first turn the model cannot follow> <tid> have=<observations
        the model can show after that turn>` -/
section A
open CpModel.C20Admit

/-- `(obs0, [(tid, obs)])` -/
def parseTrace {τ ο : Type} (ptid : String → Option τ) (pobs : String → Option ο) (s : String) :
    Option (ο × List (τ × ο)) :=
  match s.splitOn "|" with
  | [] => none
  | first :: rest =>
    if !first.startsWith "~" then none else
    match pobs (first.drop 1).toString with
    | none => none
    | some o0 =>
      let rec go : List String → ο → List (τ × ο) → Option (List (τ × ο))
        | [], _, acc => some acc.reverse
        | it :: r, last, acc =>
          match it.splitOn "~" with
          | [t] => (ptid t).bind fun t' => go r last ((t', last) :: acc)
          | [t, o] => (ptid t).bind fun t' => (pobs o).bind fun o' => go r o' ((t', o') :: acc)
          | _ => none
      (go rest o0 []).map fun tr => (o0, tr)

def answer {σ τ ο : Type} [DecidableEq ο] (step : σ → τ → σ) (en : σ → τ → Bool) (obs : σ → ο)
    (render : ο → String) (key : σ → String)
    (showTid : τ → String) (c0 : σ) (o0 : ο) (tr : List (τ × ο)) : String :=
  if admitsInit step en obs key FUEL c0 o0 tr then "ok" else
  let S0 := if obs c0 = o0 then [c0] else []
  if S0.isEmpty then s!"no init have={render (obs c0)}" else
  match failAt step en obs (pruneBy key) FUEL S0 tr 0 with
  | none => "no ?"
  | some (i, S) =>
    match tr[i]? with
    | none => "no ?"
    | some (t, _) =>
      let have_ := pruneBy id ((S.flatMap fun c => chain step en t FUEL c).map fun c => render (obs c))
      s!"no {i} {showTid t} states={S.length} have={",".intercalate (have_.take 6)}"

/-- `T=<N|k>;R=<n>;X=<0|1>;W=<sss:n>/…`; anything else (e.g. `T=?`) is not an observation of the model -/
def parseObsM (s : String) : Option Monitor.Obs :=
  match s.splitOn ";" with
  | [t, r, x, w, r2, x2] => do
    let nret2 ← if r2.startsWith "R2=" then (r2.drop 3).toString.toNat? else none
    let crashed2 ← if x2 == "X2=0" then some false else if x2 == "X2=1" then some true else none
    let tv := (t.drop 2).toString
    let thread ← if !t.startsWith "T=" then none else if tv == "N" then some none else tv.toNat?.map some
    let nret ← if r.startsWith "R=" then (r.drop 2).toString.toNat? else none
    let crashed ← if x == "X=0" then some false else if x == "X=1" then some true else none
    let wv := (w.drop 2).toString
    let ws ← if !w.startsWith "W=" then none else
      (if wv.isEmpty then [] else wv.splitOn "/").mapM fun it =>
        match it.splitOn ":" with
        | [f, n] =>
          match f.toList, n.toNat? with
          | [a, b, c, d], some k =>
            if [a, b, c, d].all (fun ch => ch == '0' || ch == '1') then
              some ({ started := a == '1', running := b == '1', done := c == '1', crashed := d == '1',
                      calls := k } : Monitor.ObsW)
            else none
          | _, _ => none
        | _ => none
    pure { thread := thread, nret := nret, crashed := crashed, ws := ws, nret2 := nret2, crashed2 := crashed2 }
  | _ => none

def showTidM : Monitor.Tid → String
  | .ctl => "c" | .ctl2 => "k" | .w i => s!"w{i + 1}" | .wx i => s!"x{i + 1}"

def admitM (f : List String) : Option String :=
  match f with
  | [mode, freq, daemon, calls, calls2, trace] => do
    let m ← parseMode mode
    let cs ← (splitList calls).mapM parseCall
    let cs2 ← (splitList calls2).mapM parseCall
    let (o0, tr) ← parseTrace parseTid parseObsM trace
    let p : Monitor.Params := { mode := m, freqPos := freq == "1", daemon := daemon == "1" }
    pure (answer (Monitor.step p) Monitor.enabled Monitor.obs Monitor.Obs.render Monitor.keyStr showTidM
      (Monitor.init2 cs cs2) o0 tr)
  | _ => none

def showTidB : BlockWait.Tid → String
  | .main => "m" | .x => "x" | .f k => s!"f{k + 1}"

def admitB (f : List String) : Option String :=
  match f with
  | [calls, foreign, trace] => do
    let cs ← (splitList calls).mapM parseBCall
    let fr ← parseForeign foreign
    let (o0, tr) ← parseTrace parseBTid some trace
    pure (answer BlockWait.step BlockWait.enabled (BlockWait.obsStr cs.length) id BlockWait.keyStr showTidB
      (BlockWait.init .started cs fr) o0 tr)
  | _ => none

def showTidT : ThreadMgr.Tid → String
  | .s => "s" | .r i => s!"t{i + 1}"

def admitT (f : List String) : Option String :=
  match f with
  | [mode, nstops, scripts, trace] => do
    let m ← parseTMode mode
    let n ← nstops.toNat?
    let ss ← (splitList scripts "/").mapM parseOps
    let (o0, tr) ← parseTrace parseTTid some trace
    pure (answer (ThreadMgr.step m) ThreadMgr.enabled (ThreadMgr.obsStr (ss.map List.length) n) id
      ThreadMgr.keyStr showTidT (ThreadMgr.init m ss n) o0 tr)
  | _ => none
end A

def step (line : String) : String :=
  match Proto.fields line with
  | "AM" :: rest => (admitM rest).getD "bad-op"
  | "AB" :: rest => (admitB rest).getD "bad-op"
  | "AT" :: rest => (admitT rest).getD "bad-op"
  | _ => "bad-op"

end Drv.C20

def main : IO Unit := CpModel.Proto.runDriver Drv.C20.step
