import CpModel.Proto
import CpModel.SessionLockN
import CpModel.SessionFile
import CpModel.SessionAdmit
/-!
  Driver for C13, part 2: admission of recorded traces (trace inclusion modulo stuttering).
-/
namespace Drv.C13P

def parseBool (s : String) : Option Bool :=
  if s == "1" then some true else if s == "0" then some false else none

def parseNats (s : String) : Option (List Nat) :=
  if s == "-" then some [] else (s.splitOn ".").mapM (·.toNat?)

def showNats (l : List Nat) : String := ".".intercalate (l.map toString)

def parseLab (s : String) : Option (Option (Nat × Nat)) :=
  if s == "-" then some none else
  match s.splitOn "." with
  | [a, b] => do pure (some (← a.toNat?, ← b.toNat?))
  | _ => none

end Drv.C13P

namespace Drv.C13N
open Drv.C13P

/-! ### trace inclusion modulo stuttering (several ids, several sweepers, handler scripts)

    ramN <rv> <sv> <alias> <ids> <thrs> <nsw> <fuel> <o0> <trace> <fin>
        rv, sv = orig | recheck          alias = 0|1
        ids    = `;`-separated  N | <counter>:<exp>, each optionally followed by `+` (lock object in the table)
        thrs   = `;`-separated  <id>:<script>, script over m (rmw) d (delete) c (clear) g (regenerate), or `-`
        o0     = initial observation, naturals joined by `.`
        trace  = `|`-separated turns <tok>@<obs>,  tok = <i> | S<k> | K<d>;   `-` = empty
        fin    = blocked flags per thread joined by `.`
      -> `ok <largest state set>`  |  `fail <turn index> <tok> <observations the model could show instead>` -/
open CpModel.SessionLockN CpModel.SessionAdmit

def parseId (s : String) : Option (Option (Nat × Nat) × Bool) :=
  let tbl := s.endsWith "+"
  let body := if tbl then (s.dropEnd 1).toString else s
  if body == "N" then some (none, tbl) else
  match body.splitOn ":" with
  | [a, b] => do pure (some (← a.toNat?, ← b.toNat?), tbl)
  | _ => none

def parseOp (c : Char) : Option Op :=
  if c == 'm' then some .rmw else if c == 'd' then some .delete else if c == 'c' then some .clear
  else if c == 'g' then some .regen else none

def parseThr (s : String) : Option (Nat × List Op) :=
  match s.splitOn ":" with
  | [a, b] => do pure (← a.toNat?, ← (if b == "-" then some [] else b.toList.mapM parseOp))
  | _ => none

def parseTok (s : String) : Option Actor :=
  if s.startsWith "S" then (s.drop 1).toString.toNat?.map .sweep
  else if s.startsWith "K" then (s.drop 1).toString.toNat?.map .tick
  else s.toNat?.map .req

def parseTurn (s : String) : Option (Turn Actor (List Nat) × Option (Nat × Nat)) :=
  match s.splitOn "@" with
  | [a, o, l] => do
    let act ← parseTok a
    let o ← parseNats o
    let l ← parseLab l
    pure ((match act with | .tick _ => .exact act o | _ => .free act o), l)
  | _ => none

def showTok : Actor → String
  | .req i => toString i | .sweep k => s!"S{k}" | .tick d => s!"K{d}"

def turnActor : Turn Actor (List Nat) → Actor
  | .free a _ => a
  | .exact a _ => a

def iterA (c : Cfg) (a : Actor) : Nat → St → St
  | 0, s => s
  | n + 1, s => iterA c a n (step c s a)

/-- every observation actor `a` can produce from the states `S` within `fuel` steps (diagnostics) -/
def reachableObs (c : Cfg) (n nsw fuel : Nat) (S : List St) (a : Actor) : List (List Nat) :=
  let all := S.flatMap fun s => (List.range (fuel + 1)).map fun m => obs n nsw (iterA c a m s)
  all.eraseDups

/-- size of the largest state set met while following the trace (evidence only) -/
def maxSet (c : Cfg) (n nsw fuel : Nat) :
    List St → List Nat → List Actor → List (Turn Actor (List Nat)) → Nat → Nat
  | S, p, act, [], m => max m (closure (step c) enabled (obs n nsw) (pruneBy (key n nsw)) fuel p act S).length
  | S, p, act, .free t o :: r, m =>
    if o = p then maxSet c n nsw fuel S p (if act.contains t then act else t :: act) r m
    else
      let S1 := closure (step c) enabled (obs n nsw) (pruneBy (key n nsw)) fuel p (act.erase t) S
      let S2 := pruneBy (key n nsw) (S1.flatMap (visChain (step c) enabled (obs n nsw) t o fuel))
      maxSet c n nsw fuel S2 o [t] r (max m (max S1.length S2.length))
  | S, p, act, .exact t o :: r, m =>
    let S1 := closure (step c) enabled (obs n nsw) (pruneBy (key n nsw)) fuel p act S
    let S2 := pruneBy (key n nsw) ((S1.map fun x => step c x t).filter fun x => decide (obs n nsw x = o))
    maxSet c n nsw fuel S2 o [] r (max m (max S1.length S2.length))

def sizes (c : Cfg) (n nsw fuel : Nat) :
    List St → List Nat → List Actor → List (Turn Actor (List Nat)) → List Nat
  | S, p, act, [] => [(closure (step c) enabled (obs n nsw) (pruneBy (key n nsw)) fuel p act S).length]
  | S, p, act, .free t o :: r =>
    if o = p then 0 :: sizes c n nsw fuel S p (if act.contains t then act else t :: act) r
    else
      let S1 := closure (step c) enabled (obs n nsw) (pruneBy (key n nsw)) fuel p (act.erase t) S
      let S2 := pruneBy (key n nsw) (S1.flatMap (visChain (step c) enabled (obs n nsw) t o fuel))
      (S1.length * 100000 + S2.length) :: sizes c n nsw fuel S2 o [t] r
  | S, p, act, .exact t o :: r =>
    let S1 := closure (step c) enabled (obs n nsw) (pruneBy (key n nsw)) fuel p act S
    let S2 := pruneBy (key n nsw) ((S1.map fun x => step c x t).filter fun x => decide (obs n nsw x = o))
    (S1.length * 100000 + S2.length) :: sizes c n nsw fuel S2 o [] r

def stepLine (args : List String) : String :=
  match args with
  | [rv, sv, al, ids, thrs, nsw, fuel, o0, trace, f] =>
    let parsed : Option (Cfg × List (Option (Nat × Nat) × Bool) × List (Nat × List Op) × Nat × Nat ×
        List Nat × List (Turn Actor (List Nat) × Option (Nat × Nat)) × List Nat) := do
      let rv ← (if rv == "orig" then some ReqV.orig else if rv == "recheck" then some ReqV.recheck else none)
      let sv ← (if sv == "orig" then some SwV.orig else if sv == "recheck" then some SwV.recheck else none)
      let al ← parseBool al
      let ids ← (ids.splitOn ";").mapM parseId
      let thrs ← (thrs.splitOn ";").mapM parseThr
      let nsw ← nsw.toNat?
      let fuel ← fuel.toNat?
      let o0 ← parseNats o0
      let tr ← (if trace == "-" then some [] else (trace.splitOn "|").mapM parseTurn)
      let f ← parseNats f
      pure ({ rv := rv, sv := sv, alias := al }, ids, thrs, nsw, fuel, o0, tr, f)
    match parsed with
    | none => "bad-op"
    | some (c, ids, thrs, nsw, fuel, o0, trl, f) =>
      let tr := trl.map (·.1)
      let n := thrs.length
      let s0 := init ids thrs
      let S0 := if obs n nsw s0 = o0 then [s0] else []
      if S0.isEmpty then s!"fail init - {showNats (obs n nsw s0)}" else
      if admitsT (step c) enabled (obs n nsw) (fin n) lab isLocal fuel s0 o0 trl f then "ok 1 tight" else
      match failAt (step c) enabled (obs n nsw) (pruneBy (key n nsw)) fuel S0 o0 [] tr 0 with
      | some (k, S) =>
        let a := match tr[k]? with | some t => turnActor t | none => .tick 0
        s!"fail {k} {showTok a} {"/".intercalate ((reachableObs c n nsw fuel S a).map showNats)}"
      | none =>
        if admits (step c) enabled (obs n nsw) (fin n) (pruneBy (key n nsw)) fuel s0 o0 tr f then
          s!"ok {maxSet c n nsw fuel S0 o0 [] tr 1} {if fuel > 100 then showNats (sizes c n nsw (fuel - 100) S0 o0 [] tr) else ""}"
        else
          let S := follow (step c) enabled (obs n nsw) (pruneBy (key n nsw)) fuel S0 o0 [] tr
          s!"fail final - {"/".intercalate ((S.map (fin n)).eraseDups.map showNats)}"
  | _ => "bad-op"

end Drv.C13N

/-! ### file backend

    fileT <file> <timeouts> <scripts> <n> <fuel> <o0> <trace> <fin>
        file = A | E | <counter>:<exp>     timeouts = per request 0|1 joined by `.` (lock_timeout configured)
        scripts = `;`-separated handler scripts over m (rmw) d (delete) g (regenerate), `-` = empty
        trace tokens: <i> | S | K<d> | X<i> (the lock timeout of request i expires) | F<k> (a fault is
        armed for the sweep: 0 open/load, 1 expiry comparison, 2 unlink)
      -> `ok …` | `fail <turn> <tok> <observations the model could show instead>` -/
namespace Drv.C13F
open Drv.C13P CpModel.SessionFile CpModel.SessionAdmit

def parseFile (s : String) : Option FileC :=
  if s == "A" then some .absent else if s == "E" then some .empty else
  match s.splitOn ":" with
  | [a, b] => do pure (.data (← a.toNat?) (← b.toNat?))
  | _ => none

def parseTok (s : String) : Option Actor :=
  if s == "S" || s == "S0" then some .sweep
  else if s.startsWith "K" then (s.drop 1).toString.toNat?.map .tick
  else if s.startsWith "X" then (s.drop 1).toString.toNat?.map .expire
  else if s.startsWith "F" then (s.drop 1).toString.toNat?.map .fault
  else s.toNat?.map .req

def parseScript (s : String) : Option (List FOp) :=
  if s == "-" then some [] else
  s.toList.mapM fun c =>
    if c == 'm' then some FOp.rmw else if c == 'd' then some FOp.delete else if c == 'g' then some FOp.regen
    else none

def showTok : Actor → String
  | .req i => toString i | .sweep => "S" | .tick d => s!"K{d}" | .expire i => s!"X{i}" | .fault k => s!"F{k}"

def parseTurn (s : String) : Option (Turn Actor (List Nat) × Option (Nat × Nat)) :=
  match s.splitOn "@" with
  | [a, o, l] => do
    let act ← parseTok a
    let o ← parseNats o
    let l ← parseLab l
    pure ((match act with | .tick _ | .expire _ | .fault _ => .exact act o | _ => .free act o), l)
  | _ => none

def turnActor : Turn Actor (List Nat) → Actor
  | .free a _ => a
  | .exact a _ => a

def iterA (a : Actor) : Nat → St → St
  | 0, s => s
  | n + 1, s => iterA a n (step s a)

def reachableObs (n fuel : Nat) (S : List St) (a : Actor) : List (List Nat) :=
  (S.flatMap fun s => (List.range (fuel + 1)).map fun m => obs n (iterA a m s)).eraseDups

def stepLine (args : List String) : String :=
  match args with
  | [f, tos, scripts, n, fuel, o0, trace, fi] =>
    let parsed : Option (FileC × List Nat × List (List FOp) × Nat × Nat × List Nat ×
        List (Turn Actor (List Nat) × Option (Nat × Nat)) × List Nat) := do
      pure (← parseFile f, ← parseNats tos, ← (scripts.splitOn ";").mapM parseScript, ← n.toNat?, ← fuel.toNat?,
            ← parseNats o0,
            ← (if trace == "-" then some [] else (trace.splitOn "|").mapM parseTurn), ← parseNats fi)
    match parsed with
    | none => "bad-op"
    | some (f, tos, progs, n, fuel, o0, trl, fi) =>
      let tr := trl.map (·.1)
      let s0 := init f (fun i => tos.getD i 0 != 0) progs
      if obs n s0 ≠ o0 then s!"fail init - {showNats (obs n s0)}" else
      if admitsT step enabled (obs n) (fin n) lab isLocal fuel s0 o0 trl fi then "ok 1 tight" else
      match failAt step enabled (obs n) (pruneBy (key n)) fuel [s0] o0 [] tr 0 with
      | some (k, S) =>
        let a := match tr[k]? with | some t => turnActor t | none => .tick 0
        s!"fail {k} {showTok a} {"/".intercalate ((reachableObs n fuel S a).map showNats)}"
      | none =>
        let S := follow step enabled (obs n) (pruneBy (key n)) fuel [s0] o0 [] tr
        if S.any fun c => decide (fin n c = fi) then s!"ok {S.length} loose"
        else s!"fail final - {"/".intercalate ((S.map (fin n)).eraseDups.map showNats)}"
  | _ => "bad-op"

end Drv.C13F
