import CpModel.Proto
import CpModel.Gzip
import CpModel.Negotiate
/-!
  Driver for C17.  One case per line; texts travel as decimal code points joined by `.` (`-` = empty),
  optional texts use `N` for None, byte strings as hex (`-` = empty), lists joined by `,` (`_` = []).

    els A|P <opt text>                          header_elements('Accept-…' | other, value)
    gz <empty> <cached> <ae?> <ct> <mimes> <vary?> <cl?>
    cs <ct?> <add> <textonly> <stream> <forced?> <ac?> <name=0|1,…>
    both <ct?> <add> <textonly> <forced?> <ac?> <name=0|1,…> <nchunks> <cached> <ae?> <mimes> <vary?>
    q <text>                                    float(text) as the model reads it
    fgen <count|N> <reads hex,…>                file_generator / file_generator_limited over the read results
    frame <level> <mtime> <payload hex> <chunks hex,…> <member hex>
    crc <init> <hex>
-/
open CpModel CpModel.Proto CpModel.Negotiate

namespace Drv.C17

def optText? (s : String) : Option (Option Str) :=
  if s == "N" then some none else (untext? s).map some

def showOptText : Option Str → String
  | none => "N"
  | some t => text t

def bool? (s : String) : Option Bool :=
  if s == "1" then some true else if s == "0" then some false else none

def list? {α : Type} (f : String → Option α) (s : String) : Option (List α) :=
  if s == "_" then some [] else (s.splitOn ",").mapM f

def showQ : Q → String
  | .ok neg n sc => s!"{if neg then "-" else ""}{n}e-{sc}"
  | .inf neg => if neg then "-inf" else "inf"
  | .nan => "nan"
  | .bad => "bad"
  | .exotic => "exotic"

def showElem (e : Elem) : String := s!"{text e.value}/{showQ e.q}/{text e.str}"

def showDecision : Decision → String
  | .compress => "compress" | .passthrough => "passthrough" | .notAcceptable => "406"
  | .err400 => "err400" | .crash => "crash" | .exotic => "exotic"

def showCs : CsResult → String
  | .chosen c => s!"chosen {text c}"
  | .notAcceptable => "406" | .err500 => "500" | .err400 => "err400" | .exotic => "exotic"

def canOf (tbl : List (Str × Bool)) (name : Str) : Bool :=
  match tbl.find? (fun p => p.1 = name) with
  | some p => p.2
  | none => false

def canEntry? (s : String) : Option (Str × Bool) :=
  match s.splitOn "=" with
  | [n, b] => do pure ((← untext? n), (← bool? b))
  | _ => none

def step (line : String) : String :=
  match fields line with
  | ["els", kind, v] =>
    match optText? v with
    | none => "bad-op"
    | some v =>
      if kind == "A" then
        match acceptElements v with
        | .err400 => "err400"
        | .exotic => "exotic"
        | .ok els => "ok " ++ " ".intercalate (els.map showElem)
      else if kind == "P" then
        "ok " ++ " ".intercalate ((plainElements v).map fun e => s!"{text e.value}/-/{text e.str}")
      else "bad-op"
  | ["gz", empty, cached, ae, ct, mimes, vary, cl] =>
    match bool? empty, bool? cached, optText? ae, untext? ct, list? untext? mimes, optText? vary,
          optText? cl with
    | some empty, some cached, some ae, some ct, some mimes, some vary, some cl =>
      let d := gzipDecision ⟨empty, cached, ae, ct, mimes⟩
      let h := gzipHeaders d ⟨vary, none, cl⟩
      s!"D={showDecision d} V={showOptText h.vary} CE={showOptText h.contentEncoding} CL={showOptText h.contentLength}"
    | _, _, _, _, _, _, _ => "bad-op"
  | ["cs", ct, add, textonly, stream, forced, ac, tbl] =>
    match optText? ct, bool? add, bool? textonly, bool? stream, optText? forced, optText? ac,
          list? canEntry? tbl with
    | some ct, some add, some textonly, some stream, some forced, some ac, some tbl =>
      match encodeCall (canOf tbl) ⟨ct, add, textonly, stream, forced, ac⟩ with
      | .noFind => "noFind"
      | .found c nct => s!"found {text c} {text nct}"
      | .fail r => s!"fail {showCs r}"
    | _, _, _, _, _, _, _ => "bad-op"
  | ["frame", lvl, mtime, payload, chunks, mem] =>
    match lvl.toNat?, mtime.toNat?, unhex? payload, list? unhex? chunks, unhex? mem with
    | some lvl, some mtime, some payload, some chunks, some mem =>
      let body := chunks.flatten
      let z : Gzip.Z := {
        deflate := fun _ _ => [payload]
        inflate := fun bs => if payload.isPrefixOf bs then some (body, bs.drop payload.length) else none }
      let m := Gzip.member z lvl mtime chunks
      let hdr := (Gzip.headerChunks lvl mtime).flatten
      let trl := (Gzip.trailerChunks (chunks.foldl Gzip.Acc.feed Gzip.Acc.init)).flatten
      let g := match Gzip.gunzip z mem with
        | some d => if d = body then "ok" else "other"
        | none => "bad"
      let gf := match Gzip.gunzipFull z mem with
        | some d => if d = body then "ok" else "other"
        | none => "bad"
      let flg := (mem.drop 3).headD 255
      let opt := match Gzip.skipOptional flg (mem.drop 10) with
        | some r => if r = mem.drop 10 then "none" else "some"
        | none => "bad"
      s!"H={hex hdr} T={hex trl} EQ={if m = mem then 1 else 0} GUNZIP={g} FULL={gf} FLG={flg.toNat} OPT={opt}"
    | _, _, _, _, _ => "bad-op"
  | ["both", ct, add, textonly, forced, ac, tbl, n, cached, ae, mimes, vary] =>
    match optText? ct, bool? add, bool? textonly, optText? forced, optText? ac, list? canEntry? tbl,
          n.toNat?, bool? cached, optText? ae, list? untext? mimes, optText? vary with
    | some ct, some add, some textonly, some forced, some ac, some tbl, some n, some cached, some ae,
      some mimes, some vary =>
      -- the codec of the case: a charset encodes every chunk or none (the table), one token byte per chunk
      let k : Codec := {
        enc := fun name _ => if canOf tbl name then some [0] else none
        dec := fun _ _ => none
        inc := fun name cs => if canOf tbl name then some (cs.map fun _ => [0]) else none }
      let z : Gzip.Z := { deflate := fun _ _ => [], inflate := fun _ => none }
      match encodeThenGzip k z ⟨ct, add, textonly, false, forced, ac⟩ ae cached mimes 0 0 ⟨vary, none, none⟩
              (List.replicate n ['x']) with
      | some o =>
        s!"found {text o.charset} {text o.contentType} D={showDecision o.decision} V={showOptText o.headers.vary} CE={showOptText o.headers.contentEncoding}"
      | none =>
        -- an error raised by the encoder becomes an error page (text/html;charset=utf-8) which runs through the
        -- before_finalize hooks, tools.gzip included
        let e := gzipDecision ⟨false, cached, ae, "text/html;charset=utf-8".toList, mimes⟩
        match encodeCall (canOf tbl) ⟨ct, add, textonly, false, forced, ac⟩ with
        | .noFind =>
          -- the body reaches tools.gzip as the handler returned it (non-empty here: the harness asks only then)
          s!"noFind D={showDecision (gzipDecision ⟨false, cached, ae, ct.getD [], mimes⟩)}"
        | .found _ _ => "unencodable"
        | .fail r => s!"fail {showCs r} E={showDecision e}"
    | _, _, _, _, _, _, _, _, _, _, _ => "bad-op"
  | ["q", t] =>
    match untext? t with
    | some t => showQ (parseQ t)
    | none => "bad-op"
  | ["fgen", count, reads] =>
    match optNat? count, list? unhex? reads with
    | some count, some reads =>
      let out := match count with
        | none => Gzip.fileGen reads
        | some c => Gzip.fileGenLimited c reads
      if out.isEmpty then "_" else ",".intercalate (out.map hex)
    | _, _ => "bad-op"
  | ["crc", init, data] =>
    match init.toNat?, unhex? data with
    | some init, some data => toString (Gzip.crc32 data (UInt32.ofNat init)).toNat
    | _, _ => "bad-op"
  | _ => "bad-op"

end Drv.C17

def main : IO Unit := CpModel.Proto.runDriver Drv.C17.step
