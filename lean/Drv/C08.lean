import CpModel.Proto
import CpModel.Dispatch
import CpModel.DispatchIO
import CpModel.Config
import CpModel.ConfigHist
import CpModel.ConfigNs
import CpModel.ConfigUpdate
import CpModel.ConfigIni
import CpModel.Unrepr
import CpModel.UnreprIO
/-!
  Driver for C08 (effective request config, find_config, toolbox, unrepr).  One case per line:

    conf <D|M> <method> <root> <noneattrs> <nodes> <sections> <global conf> <path>
        → `K=<effective config dict> TM=<toolmaps['tools']> RUN=<tools set up with kwargs> X=<0|1>` | `E:<err>`
    confh <D|M> <method> <root> <noneattrs> <nodes> <sections> <global conf> <path> <tool handlers> <box tools>
        → the same plus ` H=<tool>:<kwargs of the page-handler tool call>` | ` H=-` and ` CRUN=<ns.name>:<kwargs>;…`
          (box tools = `-` | <toolbox ns>:<attribute name>:<namespace the tool object carries>;…  — custom toolboxes)
          (tool handlers = `-` | <node id>:<tool>:<kwargs conf>;…   — `tools.<t>.handler(**kw)` page handlers)
    ns <handlers> <conf>       → `EV=<events> P=<0|1>`        (NamespaceSet.__call__; P: an exception leaves the call)
          handlers = `-` | <name>:<P | C0 | C1>:<raises: - | key+key…>;…      events = `-` | e:<ns> | c:<ns>:<k>:<val> | x:<ns>:<0|1>, …
    nseff <request|response|hooks|error_page|server|engine|log|checker> <key> <val> <aux>
                               → A:<target>:<attr>:<val> | I:<target>:<key>:<val> | E:<code|D>:<val> | H:<point> | S:<target>:<0|1> | R | ?
          aux = hook points `p+p…` (hooks), plugins `name=0|1+…` (engine), `-` otherwise
    cfgupd <global conf before> <F|S> <conf | sections>   → `K=<global config after> NS=<entries handed to the namespaces>` | `ERR` | `?`
          (cherrypy.config.update of a flat dict (F) or of an INI file / dict of sections (S); live environments table)
    cfgset <global conf before> <key> <val>               → the same for `cherrypy.config[key] = val`
    fc <sections> <path> <key> <default: - | val>        → `V=<val>` | `V=-`
    build <ast>                                            → `ok <val>` | `err <class>`      (reprconf._Builder)
    flags                                                  → the generated tables compiled into this binary
    ini <I|L> <DEFAULT options> <sections>                 → `ok <section>|<option>~<text>,…;…` | `err <kind>`
          (Parser.as_dict before unrepr; I = identity optionxform (Parser), L = lower-casing (stock);
           options = `E` | <name>~<raw>,…   sections = `-` | <name>|<options>;…)
    nameorigin <id> <importable 0|1> <builtin 0|1>         → K | M | B | -                   (build_Name lookup order)
    toast <val>                                            → `<ast>`                         (AST of repr(val))

  (graph encodings: `CpModel/DispatchIO.lean`; ast / value encodings: `CpModel/UnreprIO.lean`)
-/
open CpModel CpModel.Dispatch CpModel.DispatchIO CpModel.Config

namespace Drv.C08

def showToolList (l : List (Name × Conf)) : String :=
  if l.isEmpty then "-" else ";".intercalate (l.map fun (t, c) => Proto.text t ++ ":" ++ showConf c)

/-- `<ns>:<name>:<home>` — a tool of a custom toolbox -/
def parseBox (s : String) : Option BoxTool :=
  match s.splitOn ":" with
  | [ns, n, h] => do pure { ns := ← parseName ns, name := ← parseName n, home := ← parseName h }
  | _ => none

def showCustom (l : List (Name × Conf)) : String :=
  if l.isEmpty then "-" else ";".intercalate (l.map fun (t, c) => Proto.text t ++ ":" ++ showConf c)

def parseTh (s : String) : Option ConfigHist.ToolHandler :=
  match s.splitOn ":" with
  | [i, t, c] => do
    let kw ← parseConf c
    pure { node := ← i.toNat?, tool := ← parseName t, kwargs := kw.getD [] }
  | _ => none

def parseHandler (s : String) : Option ConfigNs.Handler :=
  match s.splitOn ":" with
  | [n, k, r] => do
    let kind : ConfigNs.HKind ← if k == "P" then some .plain else if k == "C0" then some (.ctx false)
      else if k == "C1" then some (.ctx true) else none
    pure { name := ← parseName n, kind := kind, raisesOn := ← parseList "+" parseName r }
  | _ => none

def showEv : ConfigNs.Ev → String
  | .enter ns => "e:" ++ Proto.text ns
  | .call ns k v => "c:" ++ Proto.text ns ++ ":" ++ Proto.text k ++ ":" ++ showVal v
  | .exit ns exc => "x:" ++ Proto.text ns ++ ":" ++ (if exc then "1" else "0")

def showEffect : ConfigNs.Effect → String
  | .setattr t a v => "A:" ++ Proto.text t ++ ":" ++ Proto.text a ++ ":" ++ showVal v
  | .setitem t k v => "I:" ++ Proto.text t ++ ":" ++ Proto.text k ++ ":" ++ showVal v
  | .errorPage none v => "E:D:" ++ showVal v
  | .errorPage (some n) v => s!"E:{n}:" ++ showVal v
  | .hook p => "H:" ++ Proto.text p
  | .subscribe t on => "S:" ++ Proto.text t ++ ":" ++ (if on then "1" else "0")
  | .raises => "R"

def parsePlugin (s : String) : Option (Name × Bool) :=
  match s.splitOn "=" with
  | [n, b] => do pure (← parseName n, b == "1")
  | _ => none

def parseOpt (s : String) : Option (List Char × List Char) :=
  match s.splitOn "~" with
  | [n, v] => do pure (← Proto.untext? n, ← Proto.untext? v)
  | _ => none

def parseOpts (s : String) : Option ConfigIni.Opts :=
  if s == "E" then some [] else (s.splitOn ",").mapM parseOpt

def parseIniSection (s : String) : Option (List Char × ConfigIni.Opts) :=
  match s.splitOn "|" with
  | [n, o] => do pure (← Proto.untext? n, ← parseOpts o)
  | _ => none

def showIniErr : ConfigIni.IniErr → String
  | .syntaxErr => "syntax" | .missingOption => "missing" | .depth => "depth" | .duplicateOption => "duplicate"

/-- the generated tables this binary was compiled with (the harness checks them against the live tree before
    it trusts the binary: another check against a different tree may have rebuilt it in the meantime) -/
def flagsLine : String :=
  let b (x : Bool) : String := if x then "1" else "0"
  s!"M={b Gen.C08.mergedArgsCopies} S={b Gen.C08.setConfCopies} X={b Gen.C08.starredSpreads} " ++
  s!"B={",".intercalate Gen.C08.builderNodes} R={",".intercalate Gen.C08.requestNamespaces} " ++
  s!"C={",".intercalate Gen.C08.configNamespaces} A={",".intercalate Gen.C08.appNamespaces} " ++
  s!"H={",".intercalate Gen.C08.hookPoints} " ++
  s!"E={",".intercalate (Gen.C08.environments.map fun (n, c) => String.ofList n ++ ":" ++ toString c.length)} " ++
  s!"D={Proto.text dispatchName} T={Gen.C02.translateTable.length}"

def step (line : String) : String :=
  match Proto.fields line with
  | ["flags"] => flagsLine
  | ["ini", xf, dflt, secs] =>
    match parseOpts dflt, parseList ";" parseIniSection secs with
    | some d, some ss =>
      let f : List Char → List Char := if xf == "L" then ConfigIni.lowerAscii else id
      match ConfigIni.asDictTexts f { defaults := d, sections := ss } with
      | .error e => "err " ++ showIniErr e
      | .ok r =>
        "ok " ++ (if r.isEmpty then "-" else ";".intercalate (r.map fun (n, os) =>
          Proto.text n ++ "|" ++ (if os.isEmpty then "E" else ",".intercalate (os.map fun (o, t) => Proto.text o ++ "~" ++ Proto.text t))))
    | _, _ => "bad-op"
  | ["ns", hs, conf] =>
    match parseList ";" parseHandler hs, parseConf conf with
    | some handlers, some c =>
      let (ev, p) := ConfigNs.nsCall (c.getD []) handlers
      s!"EV={if ev.isEmpty then "-" else ",".intercalate (ev.map showEv)} P={if p then 1 else 0}"
    | _, _ => "bad-op"
  | ["cfgupd", cfg, form, payload] =>
    let input : Option ConfigUpdate.Input :=
      if form == "F" then (parseConf payload).map fun c => .flat (c.getD [])
      else if form == "S" then (parseList ";" parseSection payload).map .sections
      else none
    match parseConf cfg, input with
    | some c, some i =>
      match ConfigUpdate.update ConfigUpdate.liveEnvs (c.getD []) i with
      | none => "?"
      | some (.error _) => "ERR"
      | some (.ok r) => s!"K={showConf (toDict r.config)} NS={showConf (toDict r.handed)}"
    | _, _ => "bad-op"
  | ["cfgset", cfg, key, val] =>
    match parseConf cfg, parseName key, parseVal val with
    | some c, some k, some v =>
      let r := ConfigUpdate.setItem (c.getD []) k v
      s!"K={showConf (toDict r.config)} NS={showConf (toDict r.handed)}"
    | _, _, _ => "bad-op"
  | ["nseff", which, key, val, aux] =>
    match parseName key, parseVal val with
    | some k, some v =>
      let eff : Option (Option ConfigNs.Effect) :=
        if which == "request" then some (some (ConfigNs.requestNs k v))
        else if which == "response" then some (some (ConfigNs.responseNs k v))
        else if which == "hooks" then (parseList "+" parseName aux).map fun pts => some (ConfigNs.hooksNs pts k)
        else if which == "error_page" then some (ConfigNs.errorPageNs k v)
        else if which == "server" then some (some (ConfigNs.serverNs k v))
        else if which == "engine" then (parseList "+" parsePlugin aux).map fun pl => some (ConfigNs.engineNs pl k v)
        else if which == "log" then some (some (ConfigNs.attrNs "log".toList k v))
        else if which == "checker" then some (some (ConfigNs.attrNs "checker".toList k v))
        else none
      match eff with
      | none => "bad-op"
      | some none => "?"
      | some (some e) => showEffect e
    | _, _ => "bad-op"
  | ["confh", kind, meth, root, na, nodes, secs, glob, path, th, boxes] =>
    match parseApp root na nodes secs, Proto.untext? path, parseName meth, parseConf glob, parseList ";" parseTh th,
        parseList ";" parseBox boxes with
    | some app, some p, some m, some g, some ths, some bts =>
      if kind != "M" && kind != "D" then "bad-op" else
      let w : ConfigHist.World := { glob := g.getD [], g := app.g, apps := [app.sections], thkw := ths }
      match ConfigHist.observe w 0 (kind == "M") m p with
      | .error e => s!"E:{showErr e}"
      | .ok o =>
        let c := match ConfigHist.effective w 0 (kind == "M") m p with | .ok c => c | .error _ => []
        let cr := (boxToolsSetup c bts).map fun (t, kw) => (t.ns ++ '.' :: t.name, kw)
        s!"K={showConf o.config} TM={showToolList o.toolmap} RUN={showToolList o.setup} X={if toolmapError c then 1 else 0} H={showToolList o.page.toList} CRUN={showCustom cr}"
    | _, _, _, _, _, _ => "bad-op"
  | ["conf", kind, meth, root, na, nodes, secs, glob, path] =>
    match parseApp root na nodes secs, Proto.untext? path, parseName meth, parseConf glob with
    | some app, some p, some m, some g =>
      let r := if kind == "M" then requestConfigMethod (g.getD []) app p m else requestConfig (g.getD []) app p
      if kind != "M" && kind != "D" then "bad-op" else
      match r with
      | .error e => s!"E:{showErr e}"
      | .ok c =>
        s!"K={showConf (toDict c)} TM={showToolList (toolmap c)} RUN={showToolList (toolsSetup c)} X={if toolmapError c then 1 else 0}"
    | _, _, _, _ => "bad-op"
  | ["fc", secs, path, key, dflt] =>
    match parseList ";" parseSection secs, Proto.untext? path, parseName key with
    | some s, some p, some k =>
      let d : Option (Option Val) := if dflt == "-" then some none else (parseVal dflt).map some
      match d with
      | none => "bad-op"
      | some d =>
        match findConfig s p k d with
        | none => "V=-"
        | some v => "V=" ++ showVal v
    | _, _, _ => "bad-op"
  | ["build", ast, env] =>
    match UnreprIO.parseAst ast, UnreprIO.parseEnv env with
    | some a, some e =>
      match Unrepr.build Unrepr.liveTable e a with
      | .ok v => "ok " ++ UnreprIO.showVal v
      | .error er => "err " ++ UnreprIO.showErr er
    | _, _ => "bad-op"
  | ["nameorigin", id, imp, bi] =>
    match Proto.untext? id with
    | some n =>
      match Unrepr.nameOrigin (fun _ => imp == "1") (fun _ => bi == "1") n with
      | some .keyword => "K"
      | some .module => "M"
      | some .builtin => "B"
      | none => "-"
    | none => "bad-op"
  | ["toast", val] =>
    match UnreprIO.parseVal val with
    | some v => UnreprIO.showAst (Unrepr.toAst v)
    | none => "bad-op"
  | _ => "bad-op"

end Drv.C08

def main : IO Unit := CpModel.Proto.runDriver Drv.C08.step
